"""C13 - range formatting is safe to splice (the statically visible clauses).

R1 clamp before slice   R2 refusal (= C05.R1 on the range entry)   R3 range/text consistency
R4 partial-operation inventory of the functions only the range entry reaches
"""
import re
import cfg
from prov import strip_casts
from mirfacts import callee_path, resolved_id, resolved_path, callee_str
from paths import BodyView
from framework import RuleResult, AnchorMissing
from rules import c05

META = {
    'explanation': 'Over the MIR of typstyle-core\'s range entry: (R1) the caller\'s Range<usize> reaches a str/slice index only after both ends were '
                   'clamped with min(text length) - in the entry and, across the call, in every helper the range is passed to; (R2) conversion is '
                   'dominated by the not-erroneous edge of the covering node, every other path returns Err; (R3) the returned range is range() of the '
                   'very node that is cast and handed to the converter, the converter is selected by that node\'s own cast, the mode comes from the same '
                   'cover search, the text is rendered from that document with the configured width and nested by the source-derived indentation; '
                   '(R4) the partial operations only the range entry reaches are discharged (clamped-range argument, guards, axiom table); '
                   '(R5) sibling cross-check of the two places that decide a node\'s syntactic mode: the cover search is evaluated abstractly for every (node kind, '
                   'incoming mode, preceded-by-# or not), the printer\'s converters are evaluated (E2, context tracked) for every incoming mode, and a simulation over '
                   '(kind, converter, printer mode, cover mode) from the document root requires that wherever the cover search can stop, its mode equals the printer\'s '
                   'or differs only in a way that adds redundant grouping parentheses.',
    'decides': 'no panic for arbitrary (start <= end) ranges on character boundaries, refusal on erroneous covers, range/text consistency, and that the selected node is '
               'converted in the syntactic mode the whole-document formatter would use for it',
    'does_not_decide': 'that splicing the returned text re-parses to an equivalent tree in general (behavioural, C01/C04-like); in particular the indentation inferred for the '
                       'continuation lines (a list-item body is re-indented by the count of leading blanks, not by the column of its first token)',
    'trusted_base': ['typst_syntax::LinkedNode::range is the node\'s byte range', 'str::trim_end/trim_start return sub-slices on character boundaries',
                     'axiom table (lib/rules/c13.py)', 'rustc MIR construction'],
}


def _entry(w):
    bs = [b for b in w.fn_bodies(w.core) if b.def_kind != 'Closure' and c05._is_range_entry(b)]
    if len(bs) != 1:
        raise AnchorMissing('range-formatting entry: %s' % [b.short for b in bs])
    return bs[0]


def _entry_inl(w):
    """the range entry with its own helpers expanded (see c05.entry_body)"""
    return c05.entry_body(w, _entry(w))


def _range_param(b):
    for i in range(1, b.arg_count + 1):
        if b.locals[i]['ty']['s'] == 'std::ops::Range<usize>':
            return i
    return None


def _clamped_range(v, operand, text_len_ok):
    """operand is Range{start: min(_, len), end: min(_, len)} (len = length of the text being sliced)"""
    ors = v.pv.peel(v.pv.origins_operand(operand))
    if not ors:
        return False, 'no provenance'
    for o in ors:
        if o[0] != 'agg':
            return False, 'range has provenance %s (not a freshly clamped Range literal)' % v.describe(o)
        rv = v.pv.agg_rvalue(o)
        if not rv.get('path', '').endswith('ops::Range') or len(rv['ops']) != 2:
            return False, 'not a Range literal'
        for end in rv['ops']:
            for e in v.pv.peel(v.pv.origins_operand(end)):
                e = strip_casts(e)
                if not (e[0] == 'call' and re.search(r'Ord::min$|Ord>::min$|cmp::min$', callee_path(v.pv.call_term(e)) or '')):
                    return False, 'a bound of the range is %s, not min(.., text length)' % v.describe(e)
                mt = v.pv.call_term(e)
                if not any(text_len_ok(v, a) for a in mt['args']):
                    return False, 'min() is not taken against the length of the text'
    return True, 'Range { start.min(len), end.min(len) }'


def _is_text_len(v, operand):
    for o in v.pv.peel(v.pv.origins_operand(operand)):
        o = strip_casts(o)
        if o[0] == 'call':
            p = callee_path(v.pv.call_term(o)) or ''
            if p in ('typst_syntax::Source::len_bytes', 'core::str::<impl str>::len', 'std::string::String::len', 'typst_syntax::Source::len_utf8'):
                continue
        return False
    return True


STR_INDEX = re.compile(r'impl std::ops::Index<I> for str>::index$|Index<.*> for str|str::traits::.*index$|<impl str>::get_unchecked|::split_at$|::is_char_boundary$')


def r1_clamp_before_slice(w):
    r = RuleResult('C13.R1', 'the caller\'s range is clamped to the text length before any index/slice that uses it (entry and helpers)', floor=1)
    b = _entry(w)
    v = BodyView(w, b)
    rp = _range_param(b)
    if rp is None:
        raise AnchorMissing('Range<usize> parameter of %s' % b.short)
    # every use of the raw parameter: only field reads feeding min(), or being replaced by the clamped literal
    from dataflow import iter_uses
    n = 0
    for bi, t in b.calls():
        # calls that receive a Range<usize> argument
        for ai, a in enumerate(t['args']):
            if a['o'] in ('copy', 'move') and b.locals[a['p']['l']]['ty']['s'] == 'std::ops::Range<usize>' and not a['p']['proj']:
                ors = v.pv.peel(v.pv.origins_operand(a))
                raw = any(o[0] == 'param' and o[1] == rp for o in ors)
                tainted = raw or any(o[0] == 'agg' for o in ors)
                if not tainted:
                    continue
                rid = resolved_id(t)
                cb = w.bodies.get(rid)
                p = cb.short if cb else (callee_path(t) or '')
                if re.search(r'Clone>?::clone$', p):
                    continue
                n += 1
                cons = {'fn': b.short, 'passes_range_to': p}
                ok, why = _clamped_range(v, a, _is_text_len)
                slices = cb is not None and _slices_by_param(w, cb, ai + 1)
                if ok:
                    r.ok(cons, why)
                elif slices:
                    r.bad(cons, '%s|unclamped|%s' % (b.short, p.rsplit('::', 1)[-1]),
                          '%s passes the caller\'s range to %s, which slices the text with it, before clamping it to the text length (%s): a range ending past the end '
                          'of the text panics' % (b.short, p, why), b.loc(t['span']))
                else:
                    r.ok(cons, 'callee does not index with the range')
    # direct slicing in the entry with the raw parameter
    for bi, t in b.calls():
        p = resolved_path(t) or callee_path(t) or ''
        if STR_INDEX.search(p) or re.search(r'slice::index::.*index$', p):
            for a in t['args'][1:]:
                ors = v.pv.peel(v.pv.origins_operand(a))
                if any(o[0] == 'param' and o[1] == rp for o in ors):
                    n += 1
                    r.bad({'fn': b.short, 'index': p}, '%s|raw-index' % b.short, '%s indexes with the caller\'s unclamped range' % b.short, b.loc(t['span']))
    if n == 0:
        raise AnchorMissing('no use of the range parameter found in %s' % b.short)
    return r


def _slices_by_param(w, cb, param):
    """does cb index a str/slice with (a value derived from) its `param`-th parameter?"""
    cv = BodyView(w, cb)
    for bi, t in cb.calls():
        p = resolved_path(t) or callee_path(t) or ''
        if STR_INDEX.search(p) or re.search(r'slice::index::.*index$', p):
            for a in t['args'][1:]:
                for o in cv.pv.peel(cv.pv.origins_operand(a)):
                    if o[0] == 'param' and o[1] == param:
                        return True
                    if o[0] == 'call' and re.search(r'Clone>?::clone$', callee_path(cv.pv.call_term(o)) or ''):
                        inner = cv.pv.peel(cv.pv.origins_operand(cv.pv.call_term(o)['args'][0]))
                        if any(x[0] == 'param' and x[1] == param for x in inner):
                            return True
    return False


def r2_refusal(w):
    rs = c05.r1_refusal_guard(w)
    out = RuleResult('C13.R2', 'range entry: conversion dominated by the not-erroneous edge of the covering node; every other path returns Err', floor=5)
    b = _entry(w)
    for inst in rs.instances:
        if inst['construct'].get('entry') == b.short:
            out.instances.append(inst)
    for f in rs.findings:
        if b.short in f.key:
            f.key = f.key.replace('C05.R1', 'C13.R2')
            f.rule = 'C13.R2'
            out.findings.append(f)
    return out


def r3_consistency(w):
    r = RuleResult('C13.R3', 'returned range = range() of the node that is cast and converted; mode from the same cover search; text rendered from that document', floor=7)
    b = _entry_inl(w)
    v = BodyView(w, b)
    # the covered node is converted through the printer's own entries (the functions that consult the `@typstyle off` mark and dispatch on mode and
    # kind): a converter of a *part* of a construct called directly (seed C13/5B: `convert_args` for an Args node, which has no math dispatch) prints
    # the node the way the whole-document printer never would
    import kindflow as kf
    for bi, t in b.calls():
        cb = w.bodies.get(resolved_id(t))
        if cb is None or cb.crate is not w.core or not kf.default_converter_pred(cb):
            continue
        cons = {'fn': b.short, 'converts_with': cb.short}
        if re.search(r'::(convert_markup|convert_expr|convert_pattern)$', cb.short):
            r.ok(cons, 'one of the printer\'s entry converters')
        else:
            r.bad(cons, 'entry-converter|%s' % cb.short.rsplit('::', 1)[-1],
                  'range formatting converts the covering node with %s, which is not one of the printer\'s entry converters (convert_markup / convert_expr / convert_pattern): '
                  'the node is printed without the mode / kind dispatch and the `@typstyle off` check of the whole-document printer' % cb.short, b.loc(t['span']))
    # the covering node: the LinkedNode local whose range() is returned
    ok_sites = []
    for bi, blk in enumerate(b.blocks):
        if blk['cleanup']:
            continue
        for s in blk['stmts']:
            if s['s'] == 'assign' and s['p']['l'] == 0 and s['rv']['r'] == 'agg' and s['rv'].get('vname') == 'Ok':
                ok_sites.append((bi, s))
    if len(ok_sites) != 1:
        r.bad({'fn': b.short}, '%s|ok-sites' % b.short, 'expected exactly one Ok(..) construction in %s, found %d' % (b.short, len(ok_sites)), b.loc())
        return r
    bi, s = ok_sites[0]
    tup = v.pv.peel(v.pv.origins_operand(s['rv']['ops'][0]))
    if len(tup) != 1 or next(iter(tup))[0] != 'agg':
        r.bad({'fn': b.short}, '%s|ok-payload' % b.short, 'Ok payload is not a (range, text) tuple literal', b.loc(s['span']))
        return r
    trv = v.pv.agg_rvalue(next(iter(tup)))
    rng_or = v.pv.peel(v.pv.origins_operand(trv['ops'][0]))
    node_src = None
    good = True
    for o in rng_or:
        if o[0] == 'call' and (callee_path(v.pv.call_term(o)) or '').endswith('LinkedNode::<\'a>::range'):
            ns = v.pv.origins_operand(v.pv.call_term(o)['args'][0])
            node_src = ns if node_src is None else node_src
            if ns != node_src:
                good = False
        else:
            good = False
    cons = {'fn': b.short, 'returned_range': sorted(v.describe(o) for o in rng_or)}
    if good and node_src:
        r.ok(cons, 'range() of the covering node')
    else:
        r.bad(cons, '%s|returned-range' % b.short, 'the returned range is not LinkedNode::range() of the covering node: %s' % cons['returned_range'], b.loc(s['span']))
        return r
    node_locals = {o[1][0] for o in node_src if o[0] == 'ref'}
    view = re.compile(r'Deref>::deref$|Deref::deref$|LinkedNode::<.*>::get$|AstNode.*to_untyped$')

    node_desc = {v.describe(o) for o in v.pv.through(node_src, view)}

    def is_node(operand):
        ors = v.pv.through(v.pv.origins_operand(operand), view)
        return bool(ors) and {v.describe(o) for o in ors} == node_desc
    # converter calls: node argument = cast of that node; guarded by the Some edge of that cast
    conv = [(cbi, t) for cbi, t in b.calls() if (w.bodies.get(resolved_id(t)) is not None and c05.CONVERTER_RE.search(w.bodies[resolved_id(t)].short))]
    if len(conv) < 3:
        r.bad({'fn': b.short}, '%s|converters' % b.short, 'expected converter calls for Markup, Expr and Pattern covers, found %d' % len(conv), b.loc())
    docs = set()
    for cbi, t in conv:
        cb = w.bodies[resolved_id(t)]
        cons = {'fn': b.short, 'converter': cb.short}
        arg = t['args'][2]
        ors = v.pv.peel(v.pv.origins_operand(arg))
        fine = bool(ors)
        for o in ors:
            if not (o[0] == 'call' and (callee_path(v.pv.call_term(o)) or '') == 'typst_syntax::SyntaxNode::cast' and o[2] == (('v', 1), ('f', 0))
                    and is_node(v.pv.call_term(o)['args'][0])):
                fine = False
        # parameter type of the converter agrees with the cast target
        if fine:
            r.ok(cons, 'converts the cast of the covering node')
        else:
            r.bad(cons, '%s|converted-node|%s' % (b.short, cb.short.rsplit('::', 1)[-1]),
                  '%s is not applied to the cast of the covering node (argument provenance %s): returned range and text would describe different nodes'
                  % (cb.short, sorted(v.describe(o) for o in ors)), b.loc(t['span']))
        docs.add(t['dest']['l'])
        # context: with_mode(mode) where mode comes from the same cover tuple
        cx = v.pv.peel(v.pv.origins_operand(t['args'][1]))
        cfine = bool(cx)
        for o in cx:
            if _same_cover(v, o, node_locals) or _from_cover_search(w, v, o):
                continue          # the Context returned by the same cover search
            if not (o[0] == 'call' and (callee_path(v.pv.call_term(o)) or '').endswith('Context::with_mode')):
                cfine = False
                continue
            mo = v.pv.peel(v.pv.origins_operand(v.pv.call_term(o)['args'][1]))
            if not all(_same_cover(v, m, node_locals) for m in mo):
                cfine = False
        cons = {'fn': b.short, 'converter': cb.short, 'context': sorted(v.describe(o) for o in cx)}
        if cfine:
            r.ok(cons, 'context (or mode) computed by the cover search')
        else:
            r.bad(cons, '%s|context|%s' % (b.short, cb.short.rsplit('::', 1)[-1]), 'converter context is neither the Context returned by the cover search nor Context::default().with_mode(<mode of the cover search>)', b.loc(t['span']))
    # text: to_string(pretty(nest(doc, indent), max_width))
    txt = v.pv.peel(v.pv.origins_operand(trv['ops'][1]))
    tfine = bool(txt)
    for o in txt:
        if not (o[0] == 'call' and (callee_path(v.pv.call_term(o)) or '').endswith('to_string')):
            tfine = False
            continue
        pr = v.pv.through(v.pv.origins_operand(v.pv.call_term(o)['args'][0]), re.compile(r'Deref>::deref$'))
        for x in pr:
            if not (x[0] == 'call' and (callee_path(v.pv.call_term(x)) or '').endswith('::pretty')):
                tfine = False
                continue
            pt = v.pv.call_term(x)
            width = v.describe_operand(pt['args'][1])
            if width != 'field:typstyle_core::config::Config.max_width':
                tfine = False
            dd = v.pv.through(v.pv.origins_operand(pt['args'][0]), re.compile(r'Deref>::deref$|DocBuilder::<.*>::nest$'))
            if not dd or not all(y[0] == 'call' and y[1][0] in {cbi for cbi, _ in conv} for y in dd):
                tfine = False
    cons = {'fn': b.short, 'returned_text': sorted(v.describe(o) for o in txt)[:2]}
    if tfine:
        r.ok(cons, 'rendered from the converted document at Config.max_width')
    else:
        r.bad(cons, '%s|returned-text' % b.short, 'the returned text is not the rendering of the converted covering node at the configured width', b.loc(s['span']))
    return r


def _same_cover(v, o, node_locals):
    """`mode` and `node` are the two components of the same Some((node, mode)) payload"""
    o = strip_casts(o)
    if o[0] != 'call' or not o[2] or o[2][-1] != ('f', 1):
        return False
    # the node local is defined from the same call with .0
    for l in node_locals:
        for x in v.pv._origins_local(l, frozenset()):
            if x[0] == 'call' and x[1] == o[1] and x[2][:-1] == o[2][:-1] and x[2][-1] == ('f', 0):
                return True
    return False


AXIOMS = [
    (r'^utils::trim_range\|index\|index\|', 'both slices use sub-ranges of a range whose ends were clamped to the text length by every caller (R1) and lie on character boundaries '
                                            '(trim_end/trim_start cut at character boundaries; start <= end by the statement)'),
    (r'^utils::trim_range\|overflow:Add\|', 'start + len(trimmed sub-slice) <= end <= text length'),
    (r'^utils::trim_range\|overflow:Sub\|', 'end - len(trim_start(sub-slice)) >= start >= 0: the sub-slice is text[start..end]'),
    (r'^utils::count_spaces_after_last_newline\|panic\|panic_fmt\|', 'debug assertion that the trimmed start is a character boundary: it is (clamped, trimmed start of a range on character boundaries)'),
    (r'^utils::count_spaces_after_last_newline\|index\|index\|', 's[..i] with i <= len on a character boundary; s[pos+1..i] with pos = rfind in s[..i], hence pos + 1 <= i'),
]


def r4_range_only_partial_ops(w):
    r = RuleResult('C13.R4', 'partial operations only the range entry reaches are discharged (clamped range across the call, guards, axioms)', floor=6)
    doc, range_only, _ = c05.scope(w)
    table = [(re.compile(rx), why) for rx, why in AXIOMS]
    views = {}
    entry = _entry(w)
    for ob in c05.obligations(w, range_only | {entry.id}):
        b = ob['body']
        v = views.setdefault(b.id, BodyView(w, b))
        key = c05._stable(c05.ob_key(v, ob))
        cons = {'fn': b.short, 'op': ob['op'] + (':' + ob['path'].rsplit('::', 1)[-1] if ob['kind'] == 'call' else ''), 'line_hint': ob['term']['span']['line']}
        d = c05.discharge(w, v, ob)
        if d:
            r.ok(cons, '%s: %s' % d)
            continue
        hit = None
        for rx, why in table:
            if rx.search(key):
                hit = why
        if hit and b.short == 'utils::trim_range' and not _all_callers_clamp(w, b):
            hit = None
        if hit and 'count_spaces_after_last_newline' in b.short and ob['op'] == 'index':
            # bounds must be the function's own position parameter, or (rfind result) + 1
            t = ob['term']
            fine = True
            for o in v.pv.peel(v.pv.origins_operand(t['args'][1])):
                if o[0] != 'agg':
                    fine = False
                    continue
                for bound in v.pv.agg_rvalue(o)['ops']:
                    for e in v.pv.peel(v.pv.origins_operand(bound)):
                        e = strip_casts(e)
                        if e[0] == 'param' and not e[2] and b.locals[e[1]]['ty']['s'] == 'usize':
                            continue
                        if e[0] == 'binop' and e[1][2].startswith('Add'):
                            brv = b.blocks[e[1][0]]['stmts'][e[1][1]]['rv']
                            a_or = v.pv.peel(v.pv.origins_operand(brv['a']))
                            if brv['b'].get('int') == 1 and all(x[0] == 'call' and (callee_path(v.pv.call_term(x)) or '').endswith('::rfind') for x in a_or):
                                continue
                        fine = False
            if not fine:
                hit = None
        if hit:
            r.ok(cons, 'axiom: %s' % hit)
        else:
            r.bad(cons, key, 'undischarged partial operation in %s reachable from range formatting: `%s` (operands: %s)'
                  % (b.short, ob.get('path', ob['op']), key.split('|', 3)[-1][:160]), b.loc(ob['term']['span']))
    # the indentation of the selection is counted on the text between the last line break and the selection; `str::lines` cannot find that text:
    # it yields no empty last line, so for a selection that starts at column 0 the previous line's indentation is taken (seed C13/5A)
    for bid in sorted(range_only):
        fb = w.bodies.get(bid)
        if fb is None or fb.locals[0]['ty']['s'] != 'usize':
            continue
        for bi, t in fb.calls():
            if (callee_path(t) or '').endswith('<impl str>::lines'):
                r.bad({'fn': fb.short, 'call': 'str::lines'}, '%s|last-line|lines' % c05._stable(fb.short),
                      '%s counts the indentation in front of the selection on a line found with `str::lines`, which drops the empty last line after a trailing line break: a '
                      'selection that starts at column 0 is nested by the indentation of the line before it (items and continuation lines move)' % fb.short, fb.loc(t['span']))
    # D7 (character boundaries of str slices) for the functions only the range entry reaches (C05.R3 covers the whole-document scope)
    for ok, cons, key, why, loc in c05.char_boundary_obligations(w, range_only | {entry.id}):
        if ok:
            r.ok(cons, 'D7: ' + why)
        else:
            r.bad(cons, key, why, loc)
    return r


def _all_callers_clamp(w, b):
    rp = _range_param(b)
    callers = [(cb, bi, t) for cb in w.fn_bodies(w.core) for bi, t in cb.calls() if resolved_id(t) == b.id]
    if not callers or rp is None:
        return False
    for (cb, bi, t) in callers:
        cv = BodyView(w, cb)
        ok, _ = _clamped_range(cv, t['args'][rp - 1], _is_text_len)
        if not ok:
            return False
    return True


# ---------------------------------------------------------------------------------------------
# R5: the cover search and the printer agree on the mode of every node (simulation over (kind, printer mode, cover mode))
# ---------------------------------------------------------------------------------------------
MODES = ['Markup', 'Code', 'CodeCont', 'Math']
# (mode the cover search hands to the range converter, mode the whole-document printer uses for the same node): harmless differences.
# Markup is the most conservative code-ish mode (a multi-line chain is wrapped in parentheses), Code wraps where CodeCont need not:
# the only effect is a redundant pair of grouping parentheses, which tree equivalence (C01) discards.
SAFE = {('Markup', 'Code'): 'redundant grouping parentheses only', ('Markup', 'CodeCont'): 'redundant grouping parentheses only',
        ('Code', 'CodeCont'): 'redundant grouping parentheses only'}
MODE_ADT = 'typstyle_core::pretty::context::Mode'


def _mode_val(m):
    from kindflow import Agg
    return Agg(MODE_ADT, m, [])


def _mode_of(v):
    from kindflow import Agg, Ref
    if isinstance(v, Agg) and v.adt.endswith('context::Mode') and v.variant:
        return v.variant
    return None


def _cover_fn(w):
    """the recursive cover search: fn(.., LinkedNode, Mode | Context) -> Option<(Span, Mode | Context)>"""
    bs = []
    for b in w.fn_bodies(w.core):
        if b.def_kind == 'Closure':
            continue
        tys = [b.locals[i]['ty']['s'] for i in range(1, b.arg_count + 1)]
        if any(re.match(r"^&?('\w+ )?typst_syntax::LinkedNode", t) for t in tys) and any(t.endswith(('context::Mode', 'context::Context')) for t in tys) \
                and re.match(r'^std::option::Option<\(typst_syntax::Span, pretty::context::(Mode|Context)\)>', b.locals[0]['ty']['s']):
            bs.append(b)
    if len(bs) != 1:
        raise AnchorMissing('cover search (fn(LinkedNode, Mode|Context) -> Option<(Span, Mode|Context)>): %s' % [b.short for b in bs])
    return bs[0]


def _eligible(g):
    """kinds a covering node can have: Markup, or castable to Expr / Pattern"""
    ks = set(g['kinds_of'].get('Markup', [])) | set(g['kinds_of'].get('Expr', [])) | set(g['kinds_of'].get('Pattern', []))
    return ks


def _ctx_triple(v):
    """(mode, break_suppressed, after_hash) of an abstract Context / Mode value; None = unknown"""
    from kindflow import Agg, Const
    if isinstance(v, Agg) and v.adt.endswith('context::Context'):
        md = v.fields[0] if v.fields else None
        def b_(i):
            return v.fields[i].v if len(v.fields) > i and isinstance(v.fields[i], Const) and isinstance(v.fields[i].v, bool) else None
        return (_mode_of(md), b_(1), b_(2))
    if _mode_of(v):
        return (_mode_of(v), None, None)
    return None


def cover_transitions(w):
    """{(K, (mode, supp, after_hash)_in, prev_is_hash): set((mode, supp, after_hash) handed to the recursive call for the child after prev)} by abstract
    evaluation of the cover search.  When the search tracks a Mode only, supp / after_hash are None (not tracked)."""
    import grammar
    import kindflow as kf
    import sites as sm
    from kindflow import Agg, Node
    b = _cover_fn(w)
    node_p = [i for i in range(1, b.arg_count + 1) if re.match(r"^&?('\w+ )?typst_syntax::LinkedNode", b.locals[i]['ty']['s'])][0]
    ctx_p = [i for i in range(1, b.arg_count + 1) if b.locals[i]['ty']['s'].endswith(('context::Mode', 'context::Context'))][0]
    full = b.locals[ctx_p]['ty']['s'].endswith('context::Context')
    # the search over the children may be written as a `for` loop or as an iterator consumer with a closure (find_map, any, ..): evaluate the
    # loop form of either (inline.py rewrites the consumer as the loop it stands for, the closure expanded in its body)
    import inline
    b_eval = inline.inline_body(w, b, lambda cb, t, d: False)

    def hook(ip, m, f, t, args):
        if resolved_id(t) == b.id:
            vals = [ip.load(a) if isinstance(a, kf.Ref) else a for a in args]
            tr = None
            for v in vals:
                if _ctx_triple(v):
                    tr = _ctx_triple(v)
            m.events.append(('rec', tr))
            return Agg('core::option::Option', 'None', [])
        return None
    out = {}
    flags = [(s_, a_) for s_ in (False, True) for a_ in (False, True)] if full else [(None, None)]
    for K in sorted(grammar.CHILDREN):
        for m_in in MODES:
            for (s_in, a_in) in flags:
                for prev in ('Hash', 'Space'):
                    val = sm.context(m_in, s_in, a_in) if full else _mode_val(m_in)
                    res = sm.evaluate_sequence(w, b_eval, node_p, K, [Node('child', prev), Node('child', 'FuncCall')], no_inline=lambda tb: False,
                                               extra={ctx_p: val}, hooks={'rec': hook})
                    got = set()
                    for item in res or []:
                        steps = item[1]
                        if len(steps) >= 2:
                            for e in steps[1]:
                                if e[0] == 'rec' and e[1] is not None:
                                    got.add(e[1])
                    out[(K, (m_in, s_in, a_in), prev == 'Hash')] = got if res else None
    return b, out, full


def _from_cover_search(w, v, o, depth=0):
    """the value is (a part of) what the cover search returned, possibly handed on through Option / Result combinators, `?`, or a wrapper of
    typstyle-core that calls the cover search"""
    o = strip_casts(o)
    if o[0] != 'call' or depth > 8:
        return False
    ct = v.pv.call_term(o)
    cp = resolved_path(ct) or callee_path(ct) or ''
    cb = w.bodies.get(resolved_id(ct))
    cover = _cover_fn(w)
    if cb is not None and (cb.id == cover.id or (cb.crate is w.core and cover.id in w.reachable([cb.id]) and not cb.short.startswith('pretty::'))):
        return True
    if re.search(r'Try>?::branch$', callee_path(ct) or '') and ct['args'] and o[2][:2] == (('v', 0), ('f', 0)):
        # `x?`: the Continue payload is the Ok / Some payload of x; x may be an aggregate built in an expanded helper
        arg = ct['args'][0]
        aty = v.b.locals[arg['p']['l']]['ty']['s'] if arg['o'] in ('copy', 'move') and not arg['p']['proj'] else ''
        pos = ('v', 1) if aty.startswith('std::option::Option<') else ('v', 0)
        cur = v.pv.peel(v.pv.origins_operand(arg))
        for e in (pos, ('f', 0)) + tuple(o[2][2:]):
            nxt = set()
            for x in cur:
                nxt |= v.pv._project(x, e, frozenset())
            cur = v.pv.peel(nxt)
        # residuals of an inner `?` have no positive payload: they do not reach this projection
        cur = {x for x in cur if not (x[0] == 'call' and re.search(r'from_residual$', callee_path(v.pv.call_term(x)) or ''))}
        return bool(cur) and all(_from_cover_search(w, v, x, depth + 1) for x in cur)
    if c05.COMBINATORS.search(callee_path(ct) or '') and ct['args']:
        srcs = v.pv.peel(v.pv.origins_operand(ct['args'][0]))
        return bool(srcs) and all(_from_cover_search(w, v, x, depth + 1) for x in srcs)
    return False


def entry_context_shape(w):
    """how the range entry builds the Context it converts the covering node with: 'mode-only' = Context::default().with_mode(<mode of the cover
    search>) (break_suppressed and after_hash are constantly false), 'context' = the Context the cover search returned"""
    b = _entry_inl(w)
    v = BodyView(w, b)
    shapes = set()
    for bi, t in b.calls():
        rid = resolved_id(t)
        cb = w.bodies.get(rid)
        if cb is None or cb.crate is not w.core or not cb.short.startswith('pretty::') or cb.short.startswith('pretty::context::') or cb.def_kind == 'Closure':
            continue
        if not any(cb.locals[i]['ty']['s'].endswith('context::Context') for i in range(1, cb.arg_count + 1)):
            continue
        for i in range(1, cb.arg_count + 1):
            if cb.locals[i]['ty']['s'].endswith('context::Context'):
                for o in v.pv.peel(v.pv.origins_operand(t['args'][i - 1])):
                    if o[0] == 'call':
                        ct = v.pv.call_term(o)
                        cp = resolved_path(ct) or callee_path(ct) or ''
                        if re.search(r'FromResidual.*::from_residual$', callee_path(ct) or ''):
                            continue          # the residual of a `?` in an expanded helper: it carries no Context
                        if cp.endswith('::with_mode'):
                            base = v.pv.peel(v.pv.origins_operand(ct['args'][0]))
                            if base and all(x[0] == 'call' and re.search(r'Default>?::default$|::default$', resolved_path(v.pv.call_term(x)) or callee_path(v.pv.call_term(x)) or '') for x in base):
                                shapes.add('mode-only')
                            else:
                                shapes.add('unknown:with_mode on %s' % sorted(v.describe(x) for x in base))
                        elif _from_cover_search(w, v, o):
                            shapes.add('context')
                        else:
                            shapes.add('unknown:' + cp[-60:])
                    else:
                        shapes.add('unknown:' + v.describe(o)[:60])
    return shapes


def _ctx_changing(w):
    """ids of core functions (closures attributed to their owner) that build or modify a Context or read its mode"""
    core = w.core
    out = set()
    for b in w.fn_bodies(core):
        hit = False
        for bi, t in b.calls():
            p = resolved_path(t) or callee_path(t) or ''
            if re.search(r'context::\{impl#\d+\}::(with_\w+|suppress_breaks)$|Context::(with_\w+|suppress_breaks)$', p):
                hit = True
        for blk in b.blocks:
            for s in blk['stmts']:
                if s['s'] == 'assign' and s['rv']['r'] == 'agg' and (s['rv'].get('adt') or '').endswith('context::Context'):
                    hit = True
        # ... or look at the mode (mode-dependent dispatch such as `if ctx.mode.is_math()`)
        if any(l['ty']['s'].replace('&', '').strip() == 'pretty::context::Mode' for l in b.locals):
            hit = True
        if hit and not b.short.startswith('pretty::context::'):
            owner = b
            while owner.def_kind == 'Closure' and owner.parent in w.bodies:
                owner = w.bodies[owner.parent]
            out.add(owner.id)
    return out


def _mode_if_labels(assumed):
    return [a[4] for a in assumed if len(a) > 4 and a[0].endswith('::with_mode_if') and isinstance(a[4], bool)]


_PT = {}


def _pt_task(task):
    """one (converter, parent kind, incoming mode) evaluation; runs in a forked worker (the world is inherited copy-on-write)"""
    import sites as sm
    from kindflow import Node
    w, se, elig = _PT['w'], _PT['se'], _PT['elig']
    bid, i, K, m_in = task
    b = w.bodies[bid]
    pv = None
    en = grammar_enum_param(b, i)
    if en:
        import kindflow as kf
        pv = kf.Interp(w).typed(en, Node('parent', K))
    outs, wholes = se.evaluate(b, i, K, ctx_mode=m_in, param_val=pv)
    if outs is None:
        return task, None
    res = {}
    for o in outs:
        x = o.items[-1] if o.items else None
        labs = _mode_if_labels(o.assumed)
        cond = None if not labs else (labs[-1] if len(set(labs)) == 1 else 'mixed')
        for (fn, node, mode, supp, extra) in getattr(o, 'converts_x', None) or []:
            val = (mode, fn, supp, extra[0] if extra else None)
            if isinstance(node, Node) and node.tag.startswith('child') and x is not None and node.kind == x.kind:
                res.setdefault((K, m_in, cond, node.kind), set()).add(val)
            elif isinstance(node, Node) and node.tag == 'parent':
                res.setdefault((K, m_in, cond, '<self>'), set()).add(val)
            elif not isinstance(node, Node):
                res.setdefault((K, m_in, cond, '?'), set()).add(val)
    for wh in wholes or []:
        labs = _mode_if_labels(wh.assumed)
        cond = None if not labs else (labs[-1] if len(set(labs)) == 1 else 'mixed')
        for (fn, node, mode, supp, extra) in getattr(wh, 'converts_x', None) or []:
            if isinstance(node, Node) and node.tag == 'parent':
                k = '<self>'
            elif isinstance(node, Node) and node.kind and not node.tag.startswith('child'):
                k = node.kind
            elif isinstance(node, Node):
                continue        # loop items on complete paths are judged per iteration above
            else:
                k = '?'
            res.setdefault((K, m_in, cond, k), set()).add((mode, fn, supp, extra[0] if extra else None))
    return task, res


ENUMS = ('Expr', 'Pattern', 'Arg', 'Param', 'ArrayItem', 'DictItem', 'DestructuringItem')


def grammar_enum_param(b, i):
    import grammar
    n = grammar.ast_type_name(b.locals[i]['ty'])
    return n if n in ENUMS else None


def _all_converters(w, se):
    """the typed converters of the site evaluator plus the dispatchers whose node parameter is one of the AST enums"""
    import grammar
    import kindflow as kf
    g = grammar.load()
    out = list(se.converters())
    have = {b.id for b, i, k in out}
    for b in w.fn_bodies(w.core):
        if b.def_kind == 'Closure' or b.id in have or not b.short.startswith('pretty::') or not kf.default_converter_pred(b):
            continue
        for i in range(1, b.arg_count + 1):
            en = grammar_enum_param(b, i)
            if en:
                out.append((b, i, sorted(g['kinds_of'].get(en, []))))
                break
    return out


def _pt_seq(task):
    """two-step sequence <prev, x0> with a Math context: the modes handed to x0"""
    import sites as sm
    from kindflow import Node
    w = _PT['w']
    bid, i, K, prev, x0 = task
    b = w.bodies[bid]
    res = sm.evaluate_sequence(w, b, i, K, [Node('child', prev), Node('child', x0)], ctx=sm.context('Math', None), with_wholes=True, max_paths=6000,
                               no_inline=lambda tb: (tb.short.endswith('::print_doc') or tb.short.endswith('collect_markup_repr') or 'get_fold_style' in tb.short
                                                     or tb.short.startswith('attr::') or tb.short.endswith('has_comment_children')) and tb.id != b.id)
    if res is None:
        return task, None
    modes = set()
    for loop, steps, assumed, items in res:
        if loop is None or len(steps) < 2:
            continue
        for e in steps[1]:
            if e[0] == 'convert' and isinstance(e[2], Node) and e[2].tag == 'child' and e[2].kind == x0:
                modes.add((e[3], e[4], (e[5][0] if len(e) > 5 and e[5] else None)))
    return task, modes


def printer_transitions(w):
    """{(K, m_in, cond, X): set(modes the printer hands to the conversion of child X)} where cond is the value of the
    condition of Context::with_mode_if on that path (None when the path does not pass one); only converters whose own code
    (helpers and closures included, other converters excluded) builds or modifies a Context are evaluated - every other converter
    passes the context it received on (there is nothing in its code that could change it).
    Also returns, per site with Hash children, the modes handed to the child after a Hash / after a Space (two-step sequences)."""
    import hashlib, os, pickle
    import multiprocessing as mp
    import grammar
    import kindflow as kf
    import sites as sm
    g = grammar.load()
    here = os.path.dirname(os.path.dirname(os.path.abspath(__file__)))
    h = hashlib.sha256()
    for fn in ('sites.py', 'kindflow.py', 'grammar.py', 'cfg.py', 'paths.py', 'prov.py', 'mirfacts.py', 'effects.py', 'inline.py', 'world.py', 'rules/c13.py', '../tables/typst_syntax_0.13.1.json'):
        h.update(open(os.path.join(here, fn), 'rb').read())
    cache = os.path.join(w.facts_dir, 'modes-%s.pickle' % h.hexdigest()[:16])
    if os.path.exists(cache):
        try:
            with open(cache, 'rb') as fh:
                return pickle.load(fh)
        except Exception:
            pass
    se = sm.SiteEvaluator(w)
    changing = _ctx_changing(w)
    edges, _ = w.callgraph()

    def reach(b):
        seen, work = set(), [b.id]
        while work:
            x = work.pop()
            if x in seen or x not in w.bodies:
                continue
            seen.add(x)
            for y in edges.get(x, ()):
                yb = w.bodies.get(y)
                if yb is None or yb.crate is not w.core:
                    continue
                if y != b.id and kf.default_converter_pred(yb):
                    continue
                work.append(y)
        return seen
    elig = _eligible(g)
    evaluated, passthrough, tasks, seqtasks, ptasks = [], [], [], [], []
    for b, i, kinds in _all_converters(w, se):
        rs = reach(b)
        if not (rs & changing):
            passthrough.append((b.short, kinds))
            for K in kinds:
                ptasks.append((b.id, i, K, 'Markup'))
            continue
        evaluated.append(b.short)
        uses_if = any(re.search(r'with_mode_if$', resolved_path(t) or callee_path(t) or '') for x in rs for bi, t in w.bodies[x].calls())
        uses_ah = any(re.search(r'with_after_hash$', resolved_path(t) or callee_path(t) or '') for x in rs if x == b.id or w.bodies[x].def_kind == 'Closure' or not kf.default_converter_pred(w.bodies[x])
                      for bi, t in w.bodies[x].calls()) and not b.short.endswith(('::convert_expr', '::convert_expr_impl'))
        for K in kinds:
            for m_in in MODES:
                tasks.append((b.id, i, K, m_in))
            if (uses_if or uses_ah) and 'Hash' in grammar.CHILDREN.get(K, []):
                kids = [k for k in grammar.CHILDREN.get(K, []) if k in elig]
                x0 = 'FuncCall' if 'FuncCall' in kids else (kids[0] if kids else None)
                if x0:
                    for prev in ('Hash', 'Space'):
                        seqtasks.append((b.id, i, K, prev, x0))
    _PT.update(w=w, se=se, elig=elig)
    out, failed, seqs = {}, [], {}
    from parmap import parmap
    for task, res in parmap(_pt_task, tasks):
        if res is None:
            failed.append((w.bodies[task[0]].short,) + task[2:])
            continue
        for k, v in res.items():
            out.setdefault((w.bodies[task[0]].short,) + k, set()).update(v)
    for task, modes in parmap(_pt_seq, seqtasks):
        seqs[(w.bodies[task[0]].short, task[2], task[3], task[4])] = modes
    passkids = {}
    for task, res in parmap(_pt_task, ptasks):
        fn = w.bodies[task[0]].short
        if res is None:
            failed.append((fn,) + task[2:])
            continue
        for (K, m_in, cond, X), v in res.items():
            passkids.setdefault((fn, K, X), set()).update(x[1] for x in v if x[0] is not None)
    _PT.clear()
    kinds_of_fn = {b.short: kinds for b, i, kinds in _all_converters(w, se)}
    result = (out, evaluated, passthrough, failed, seqs, passkids, kinds_of_fn)
    try:
        with open(cache, 'wb') as fh:
            pickle.dump(result, fh)
    except Exception:
        pass
    return result


def r5_mode_agreement(w):
    r = RuleResult('C13.R5', 'the cover search hands the range converter the context (mode, break suppression, after-# flag) the whole-document printer uses for the same node '
                   '(simulation over kind x converter x printer context x cover context)', floor=60)
    import grammar
    import sites as sm
    g = grammar.load()
    cb, cov, cover_full = cover_transitions(w)
    shape = entry_context_shape(w)
    if shape == {'mode-only'}:
        passes_ctx = False
    elif shape == {'context'} and cover_full:
        passes_ctx = True
    else:
        r.bad({'range_entry_context': sorted(shape), 'cover_search_tracks_context': cover_full}, 'mode|entry-shape',
              'how the range entry builds the Context for the covering node was not recognised (%s)' % sorted(shape), _entry(w).loc())
        return r
    r.ok({'range_entry_context': 'the Context returned by the cover search' if passes_ctx else 'Context::default().with_mode(mode of the cover search): break_suppressed = after_hash = false'},
         'entry shape recognised')
    pr, evaluated, passthrough, failed, seqs, passkids, kinds_of_fn = printer_transitions(w)
    for f in failed:
        r.bad({'printer_site': f[0], 'parent': f[1], 'mode': f[2]}, 'mode|not-evaluated|%s|%s' % (last(f[0]), f[1]), 'the printer\'s mode transitions of %s could not be evaluated within bounds' % f[0])
    ev = set(evaluated)
    # the condition of with_mode_if is "the previous sibling is a Hash" (checked where the grammar admits a Hash child)
    link_ok = True
    for (fn, K, prev, x0), modes in sorted(seqs.items()):
        want = set()
        for cond in ((True, None) if prev == 'Hash' else (False, None)):
            want |= {x[0] for x in pr.get((fn, K, 'Math', cond, x0), set())}
        seq_modes = {x[0] for x in (modes or [])}
        cons = {'printer_site': last(fn), 'parent': K, 'previous_sibling': prev, 'child': x0, 'modes': sorted(map(str, seq_modes))}
        if not want or not seq_modes:
            continue          # no conditional mode change at this site (e.g. the markup loop): nothing to tie to the `#`
        if modes is not None and seq_modes and seq_modes <= want:
            r.ok(cons, 'with_mode_if condition == previous sibling is Hash')
        else:
            link_ok = False
            r.note('with_mode_if at %s (%s) is not tied to a preceding Hash (%s vs %s): both values are assumed for every child' % (last(fn), K, modes, want))
    elig = _eligible(g)
    inner = set(grammar.CHILDREN)
    code_only = set(grammar.CODE_EXPR) - set(grammar.MATH_EXPR)
    math_only = set(grammar.MATH_EXPR) - set(grammar.CODE_EXPR)
    math_ok = set(grammar.MATH_EXPR) | {'Args', 'Named', 'Spread', 'Array'}      # Array: the rows of two-dimensional math arguments `mat(1, 2; 3, 4)`

    def transitions(fn, K, P):
        """[(cond, Xkey, P', callee, supp_by)] of converter fn on a K node entered with printer context P = (mode, supp, after_hash, supp_origin)"""
        m_p, s_p, a_p, o_p = P
        out = []
        if fn in ev:
            for cond in (None, True, False, 'mixed'):
                for xk in list(grammar.CHILDREN.get(K, [])) + [x for fk in sm.FLATTEN.get(K, []) for x in grammar.CHILDREN.get(fk, [])] + ['<self>', '?']:
                    for (mode, callee, supp, ah) in pr.get((fn, K, m_p, cond, xk), ()):
                        if mode is None:
                            continue
                        s2 = s_p if supp is None else supp
                        o2 = o_p
                        if supp is True and not s_p:
                            o2 = 'math' if K in ('Math',) or fn.endswith('::convert_math') else 'mixed-line'
                        out.append((cond, xk, (mode, s2, a_p if ah is None else ah, o2), callee))
        else:
            for (f2, K2, xk), callees in passkids.items():
                if f2 == fn and K2 == K:
                    for callee in callees:
                        out.append((None, xk, P, callee))
        return out

    def feasible(K, m_p, hash_prev, X, has_hash):
        # which children the parser can produce (grammar table): after `#` an embedded code expression, and that only in markup and math;
        # otherwise the expressions of the parent's own syntactic mode
        if K == 'Markup':
            if hash_prev:
                return X in grammar.CODE_EXPR
            return X not in set(grammar.CODE_EXPR) - set(grammar.MARKUP_EXPR)
        if has_hash:
            if hash_prev:
                return m_p == 'Math' and X in grammar.CODE_EXPR
            return not ((m_p == 'Math' and X not in math_ok) or (m_p != 'Math' and X in math_only))
        if m_p == 'Math' and X not in math_ok:
            return False          # in math, anything but math expressions (and the argument structure of math calls) occurs only directly after `#`
        return not hash_prev

    def cover_next(K, C, hash_prev):
        """contexts the cover search hands to a child of K"""
        if passes_ctx:
            v = cov.get((K, C, hash_prev))
            if v is None:
                return None
            # a flag the evaluation could not determine (stale state carried over from an earlier sibling) can be either
            out = set()
            for (m_, s_, a_) in v:
                for s2 in ((False, True) if s_ is None else (s_,)):
                    for a2 in ((False, True) if a_ is None else (a_,)):
                        out.add((m_, s2, a2))
            return out
        v = cov.get((K, (C[0], None, None) if not cover_full else C, hash_prev))
        if v is None:
            return None
        # the entry builds Context::default().with_mode(mode): both flags are constantly false
        return {(x[0], False, False) for x in v}

    entry = [b for b in w.fn_bodies(w.core) if b.short.endswith('::convert_markup') and b.def_kind != 'Closure']
    if len(entry) != 1:
        raise AnchorMissing('convert_markup')
    start = ('Markup', entry[0].short, ('Markup', False, False, None), ('Markup', False, False))
    seen, work = {start}, [start]
    pred = {start: None}
    hash_modes = {}       # (parent kind, printer site) -> {mode handed to the child that follows `#` when the parent is printed in math mode: child kinds}
    reported = {}
    unknown_fns = set()
    n_edges = 0

    def compare(K, X, hash_prev, C, P, via):
        """is the context C of the cover search as good as the printer's P for converting node X?"""
        nonlocal n_edges
        n_edges += 1
        (mc, sc, ac), (mp, sp, ap, op) = C, P
        what = None
        if not (mc == mp or (mc, mp) in SAFE):
            what = ('mode', mc, mp)
        elif sp and not sc and op == 'math':
            # below Math the printer never breaks a line on its own; without the flag the converter may (a dot chain after `#` is broken without parentheses)
            what = ('break_suppressed', sc, sp)
        elif ap and not ac:
            what = ('after_hash', ac, ap)
        if what is None:
            return True
        key = 'mode|%s|%s|cover=%s|printer=%s' % (K, 'after-hash' if hash_prev else 'plain', what[1], what[2]) if what[0] == 'mode' else \
              'ctx|%s|%s|%s|cover=%s|printer=%s' % (what[0], K, 'after-hash' if hash_prev else 'plain', what[1], what[2])
        reported.setdefault(key, {'parent': K, 'after_hash': hash_prev, 'field': what[0], 'cover': what[1], 'printer': what[2], 'printer_site': last(via), 'children': []})
        reported[key]['children'].append(X)
        return False

    while work:
        K, fn, P, C = work.pop()
        if fn not in kinds_of_fn:
            unknown_fns.add(fn)
            continue
        kids = list(grammar.CHILDREN.get(K, []))
        flat = {x: fk for fk in sm.FLATTEN.get(K, []) for x in grammar.CHILDREN.get(fk, [])}
        has_hash = 'Hash' in kids
        for (cond, xk, P2, callee) in transitions(fn, K, P):
            if xk == '<self>':
                # the same node handed on (dispatcher, wrapper): the cover search entered with C, the printer continues with P2
                nxt = (K, callee, P2, C)
                if nxt not in seen:
                    seen.add(nxt)
                    pred[nxt] = ((K, fn, P, C), 'self', cond)
                    work.append(nxt)
                continue
            if xk == '?':
                ck = kinds_of_fn.get(callee, [])
                xs = [x for x in ck if x in kids or x in flat] or ([K] if K in ck else [x for x in ck if x in inner][:6])
            else:
                xs = [xk]
            for X in xs:
                if X not in inner and X not in elig:
                    continue
                hp = {True, False} if (cond in (None, 'mixed') or not link_ok) else {cond}
                if not has_hash:
                    hp &= {False}
                for hash_prev in sorted(hp):
                    if not feasible(K, P[0], hash_prev, X, has_hash):
                        continue
                    if X == K and xk == '?':
                        cs = {C}
                    elif X in flat and X not in kids:
                        cs = set()
                        for c1 in (cover_next(K, C, False) or []):
                            cs |= (cover_next(flat[X], c1, hash_prev) or set())
                    else:
                        cs = cover_next(K, C, hash_prev)
                    if not cs:
                        key = 'mode|cover-not-evaluated|%s' % K
                        if key not in reported:
                            reported[key] = True
                            r.bad({'parent': K, 'context': list(C)}, key, 'the cover search could not be evaluated for a %s node' % K, cb.loc())
                        continue
                    P3 = P2
                    sq = [v_ for (f_, k_, pv_, x0_), v_ in seqs.items() if f_ == fn and k_ == K and pv_ == ('Hash' if hash_prev else 'Space')]
                    if sq and sq[0]:
                        ahs = {x[2] for x in sq[0]}
                        if len(ahs) == 1 and None not in ahs:
                            P3 = (P2[0], P2[1], next(iter(ahs)), P2[3])      # the flag set for the child after `#` / after anything else at this site
                    if hash_prev and P[0] == 'Math':
                        hash_modes.setdefault((K, last(fn)), {}).setdefault(P3[0], set()).add(X)
                    for c in cs:
                        if X in elig and not compare(K, X, hash_prev, c, P3, fn):
                            continue
                        nxt = (X, callee, P3, c)
                        if X in inner and nxt not in seen:
                            seen.add(nxt)
                            pred[nxt] = ((K, fn, P, C), xk, cond, hash_prev)
                            work.append(nxt)
    import os
    if os.environ.get('C13_TRACE'):
        for key, d in reported.items():
            print('TRACE', key, d if d is True else {k: v for k, v in d.items() if k != 'children'}, '' if d is True else sorted(set(d['children']))[:4])
    for key, d in sorted(reported.items()):
        if d is True:
            continue
        ch = sorted(set(d['children']))
        cons = {k: v for k, v in d.items() if k != 'children'} | {'children': len(ch)}
        if d['field'] == 'mode':
            msg = ('a %s child of a %s node%s is converted in %s mode by the whole-document printer (%s) but the cover search of range formatting hands it to the converter in %s mode '
                   '(e.g. child kinds %s): the returned text is laid out for the wrong syntactic context (code arguments printed in math style, or a multi-line method chain without '
                   'the parentheses markup needs), so splicing it back changes the tree or no longer parses'
                   % ('/'.join(ch[:3]), d['parent'], ' that follows a `#`' if d['after_hash'] else '', d['printer'], d['printer_site'], d['cover'], ch[:4]))
        elif d['field'] == 'break_suppressed':
            msg = ('below Math the whole-document printer converts a %s child of a %s node%s with line breaks suppressed (%s) but range formatting converts it with break_suppressed=%s '
                   '(e.g. child kinds %s): a dot chain after `#` in math is then broken over several lines without parentheses, and the line break ends the embedded expression'
                   % ('/'.join(ch[:3]), d['parent'], ' that follows a `#`' if d['after_hash'] else '', d['printer_site'], d['cover'], ch[:4]))
        else:
            msg = ('the whole-document printer converts a %s child of a %s node that follows a `#` with after_hash set (%s) but range formatting converts it with after_hash=%s '
                   '(e.g. child kinds %s): the parentheses of `#(1)pt` are removed and the literal fuses with the text after it'
                   % ('/'.join(ch[:3]), d['parent'], d['printer_site'], d['cover'], ch[:4]))
        r.bad(cons, key, msg, cb.loc())
    for (K, fn, P, C) in sorted(seen, key=str):
        r.ok({'kind': K, 'converter': last(fn), 'printer_context': list(P[:3]), 'cover_context': list(C)}, 'reachable state: equal or harmlessly weaker')
    if unknown_fns:
        r.note('converters whose parent kinds are unknown (their children are not followed): %s' % sorted(last(x) for x in unknown_fns))
    r.hash_modes = hash_modes
    r.note('%d reachable (kind, converter, printer context, cover context) states, %d context pairs compared; %d converters evaluated for context changes, %d pass their context on unchanged'
           % (len(seen), n_edges, len(evaluated), len(passthrough)))
    return r


def last(s):
    return s.rsplit('::', 1)[-1]


_R5_CACHE = {}


def printer_hash_mode_obligations(w):
    """[(ok, construct, key, why, loc)] - printer side only (used by C01 / C04; seed C04/4B): an expression embedded with `#` in math is code, so
    at every site the simulation of R5 reaches in math mode the child that follows a `#` must be handed a Code-mode context.  In math mode the
    converters print a call's arguments the math way (`convert_args_in_math`: bare commas, no trailing content blocks), which re-parses differently
    or not at all for a code call (`$x_#text(red)[i]$` -> `#text(red [i])`)."""
    key = w.facts_dir
    if key not in _R5_CACHE:
        _R5_CACHE[key] = r5_mode_agreement(w)
    r5 = _R5_CACHE[key]
    hm = getattr(r5, 'hash_modes', None)
    out = []
    if not hm:
        out.append((False, {'sites': 0}, 'hash-mode|not-evaluated', 'the printer simulation reached no `#` site in math mode (anchor missing)', None))
        return out
    for (K, site), modes in sorted(hm.items()):
        cons = {'parent': K, 'printer_site': site, 'modes_after_hash_in_math': sorted(modes)}
        badm = sorted(m_ for m_ in modes if m_ != 'Code')
        if badm:
            out.append((False, cons, 'hash-mode|%s|%s|%s' % (site, K, badm[0]),
                        'in math mode %s converts the child of a %s node that follows a `#` (e.g. %s) in %s mode instead of Code mode: an embedded code expression is then printed '
                        'by the math converters (call arguments without their trailing content blocks / with math separators) and no longer parses or parses differently'
                        % (site, K, sorted(modes[badm[0]])[:3], badm[0]), None))
        else:
            out.append((True, cons, 'hash-mode|%s|%s' % (site, K), 'the child after `#` is converted in Code mode', None))
    return out


RULES = [r1_clamp_before_slice, r2_refusal, r3_consistency, r4_range_only_partial_ops, r5_mode_agreement]
for _f in RULES:
    _f.needs = ('core',)
MATRIX_RULES = [r1_clamp_before_slice, r2_refusal, r3_consistency, r4_range_only_partial_ops]
EXTRA_CONFIGS = ['core-serde']


# ---------------------------------------------------------------------------------------------
# R6: hanging indentation of item bodies - Typst derives the nesting of list / enum / term items from indentation, so the body of an item
#     that range formatting re-renders on its own has to be indented as the whole-document printer indents it
# ---------------------------------------------------------------------------------------------
ITEM_KINDS = ('ListItem', 'EnumItem', 'TermItem')


def _printer_item_nests(w):
    """{item kind: number of nest() wrappers the item converter puts around the conversion of its Markup body}"""
    import grammar
    import sites as sm
    from kindflow import Doc, Node
    se = sm.SiteEvaluator(w)
    out = {}

    def depth_of(doc, pred, d=0):
        best = None
        for a in doc.atoms:
            if a[0] == 'wrap':
                for sub in a[2:]:
                    if isinstance(sub, Doc):
                        x = depth_of(sub, pred, d + (1 if a[1] == 'nest' else 0))
                        if x is not None:
                            best = x if best is None else min(best, x)
            elif a[0] == 'alt':
                for sub in a[1:3]:
                    if isinstance(sub, Doc):
                        x = depth_of(sub, pred, d)
                        if x is not None:
                            best = x if best is None else min(best, x)
            elif pred(a):
                best = d if best is None else min(best, d)
        return best
    for b, i, kinds in se.converters():
        for K in kinds:
            if K not in ITEM_KINDS or not se.has_node_loop(b):
                continue
            res = sm.evaluate_sequence(w, b, i, K, [Node('child', 'Markup'), 'END'], with_wholes=True)
            for item in res or []:
                if len(item) > 3 and isinstance(item[3], tuple) and item[3] and item[3][0] == 'ended' and isinstance(item[3][1], Doc):
                    d = depth_of(item[3][1], lambda a: a[0] == 'conv' and isinstance(a[2], Node) and a[2].kind == 'Markup' and a[2].tag == 'child')
                    if d is not None:
                        out[K] = d if K not in out else min(out[K], d)
    return out


def _kind_of_parent(v, sw):
    """the switch at block sw tests the kind of the covering node's parent: discriminant of `parent.kind()` / of the payload of `node.parent_kind()`"""
    view = re.compile(r'Deref>::deref$|Deref::deref$|LinkedNode::<.*>::get$')
    for o in v.pv.origins_operand(v.b.blocks[sw]['term']['discr']):
        o = strip_casts(o)
        if o[0] != 'discr':
            continue
        l, pr = o[1]
        for x in v.pv.peel(v.pv._origins(l, pr, frozenset())):
            x = strip_casts(x)
            if x[0] != 'call':
                continue
            p = callee_path(v.pv.call_term(x)) or ''
            if p.endswith('::parent_kind'):
                return True
            if p == 'typst_syntax::SyntaxNode::kind' or p.endswith('LinkedNode::<\'a>::kind') or p.endswith('::kind'):
                for y in v.pv.through(v.pv.origins_operand(v.pv.call_term(x)['args'][0]), view):
                    if y[0] == 'call' and re.search(r'LinkedNode::<.*>::parent$', callee_path(v.pv.call_term(y)) or ''):
                        return True
    return False


def r6_item_body_indent(w):
    r = RuleResult('C13.R6', 'the body of a list / enum / term item re-rendered by range formatting is nested as the printer nests it (one unit below the marker)', floor=4)
    from rules import c19
    nests = _printer_item_nests(w)
    for K in ITEM_KINDS:
        cons = {'printer': 'item converter', 'item': K, 'nest_wrappers_around_body': nests.get(K)}
        if nests.get(K) is None:
            r.bad(cons, 'item-indent|printer|%s' % K, 'the printer\'s conversion of a %s could not be evaluated' % K)
        else:
            r.ok(cons, 'the whole-document printer indents the body %d unit(s) below the item' % nests[K])
    need = {K for K, n in nests.items() if n}
    b = _entry_inl(w)
    v = BodyView(w, b)
    kinds = c19.syntax_kind_names(w)
    unit_nests = []
    for bi, t in b.calls():
        if not (callee_path(t) or '').endswith('DocBuilder::<\'a, D, A>::nest') and not (callee_path(t) or '').endswith('::nest'):
            continue
        amount = v.describe_operand(t['args'][1], 3)
        if 'Config.tab_spaces' not in amount:
            continue
        covered = set()
        # (c) `doc.nest(levels * unit)` with `levels` = 1 for the item kinds and 0 otherwise (a count computed from the parent's kind)
        for o in v.pv.peel(v.pv.origins_operand(t['args'][1])):
            o = strip_casts(o)
            if o[0] == 'binop' and o[1][2].startswith('Mul'):
                rv = b.blocks[o[1][0]]['stmts'][o[1][1]]['rv']
                for side in (rv['a'], rv['b']):
                    if 'Config.tab_spaces' in v.describe_operand(side, 3) or side.get('o') not in ('copy', 'move') or side['p']['proj']:
                        continue
                    L = side['p']['l']
                    for _ in range(4):
                        ds = v.pv.defs.get(L, [])
                        if len(ds) == 1 and ds[0][1] == 'rv' and ds[0][4]['r'] == 'use' and ds[0][4]['op'].get('o') in ('copy', 'move') and not ds[0][4]['op']['p']['proj']:
                            L = ds[0][4]['op']['p']['l']
                        else:
                            break
                    ds = v.pv.defs.get(L, [])
                    if ds and all(d_[1] == 'rv' and d_[4]['r'] == 'use' and d_[4]['op'].get('o') == 'const' and d_[4]['op'].get('int') in (0, 1) for d_ in ds):
                        for d_ in ds:
                            if d_[4]['op'].get('int') == 1:
                                for atom2, vals2, sw2 in v.guards_ext(d_[2]):
                                    if vals2 and all(isinstance(x, str) for x in vals2) and set(vals2) <= set(kinds.values()) and isinstance(sw2, int) and _kind_of_parent(v, sw2):
                                        covered |= set(vals2)
        for atom, vals, sw in v.guards_ext(bi):
            # (b) a match on the parent's kind itself: `match node.parent_kind() { Some(ListItem | ..) => .. }` / `match parent.kind() { .. }`
            if vals and all(isinstance(x, str) for x in vals) and set(vals) <= set(kinds.values()) and isinstance(sw, int) and _kind_of_parent(v, sw):
                covered |= set(vals)
                continue
            if vals != {True} or '::parent(' not in atom or not isinstance(sw, int):
                continue
            # the closure handed to is_some_and: for which parent kinds does it answer true?
            for o in v.pv.peel(v.pv.origins_operand(b.blocks[sw]['term']['discr'])):
                if o[0] != 'call':
                    continue
                ct = v.pv.call_term(o)
                for a in ct['args'][1:]:
                    for x in v.pv.peel(v.pv.origins_operand(a)):
                        if x[0] == 'agg' and v.pv.agg_rvalue(x).get('ak') == 'closure':
                            cb = w.bodies.get(v.pv.agg_rvalue(x)['def']['id'])
                            if cb is None:
                                continue
                            cv = BodyView(w, cb)
                            for cbi, blk in enumerate(cb.blocks):
                                tt = blk['term']
                                if tt['t'] == 'switch' and 'kind' in cv.switch_atom(cbi):
                                    by = {}
                                    for val, tgt in tt['targets']:
                                        by.setdefault(tgt, set()).add(kinds.get(val))
                                    for tgt, ks in by.items():
                                        la = [s for s in cb.blocks[tgt]['stmts'] if s['s'] == 'assign' and s['p']['l'] == 0]
                                        if la and la[-1]['rv']['r'] == 'use' and la[-1]['rv']['op'].get('int') == 1:
                                            covered |= ks
        unit_nests.append((bi, covered))
    got = set()
    for bi, ks in unit_nests:
        got |= ks
    cons = {'range_entry': b.short, 'unit_nest_for_parent_kinds': sorted(map(str, got)), 'printer_nests_body_of': sorted(need)}
    if got == need and need:
        r.ok(cons, 'one more unit of indentation exactly when the covering node is the body of an item')
    elif need - got:
        r.bad(cons, 'item-indent|range-entry',
              'range formatting indents the re-rendered text by the blanks in front of the line only; when the covering node is the body of a %s the printer indents continuation '
              'lines one unit below the marker, so the returned text puts them at the marker\'s column and they leave the item (`- a⏎  - b⏎    continued` with the range in item b -> '
              '`continued` at 2 blanks): the spliced document has a different tree' % '/'.join(sorted(need - got)), b.loc())
    else:
        r.bad(cons, 'item-indent|range-entry|extra', 'range formatting adds a unit of indentation for parent kinds %s for which the printer adds none' % sorted(map(str, got - need)), b.loc())
    return r


RULES = [r1_clamp_before_slice, r2_refusal, r3_consistency, r4_range_only_partial_ops, r5_mode_agreement, r6_item_body_indent]
for _f in RULES:
    _f.needs = ('core',)
MATRIX_RULES = [r1_clamp_before_slice, r2_refusal, r3_consistency, r4_range_only_partial_ops]
