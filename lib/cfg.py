"""CFG utilities over a mirfacts.Body: dominators, post-dominators, reachability, natural loops.

Cleanup (unwind) blocks and unwind edges are excluded throughout: the properties talk about
normal returns; a panic is a violation of C05 by itself and is handled by the partial-operation
inventory.
"""


def normal_blocks(body):
    return [i for i, b in enumerate(body.blocks) if not b['cleanup']]


def reachable_from(body, start, stop=()):
    """blocks reachable from `start` (inclusive) without passing *through* a block in `stop`
    (stop blocks themselves are included when reached)."""
    seen = set()
    work = [start]
    while work:
        b = work.pop()
        if b in seen:
            continue
        seen.add(b)
        if b in stop and b != start:
            continue
        for s in body.succs(b):
            if not body.blocks[s]['cleanup']:
                work.append(s)
    return seen


def reaches(body, target_set):
    """blocks from which some block in target_set is reachable (inclusive)"""
    preds = body.preds()
    seen = set(target_set)
    work = list(target_set)
    while work:
        b = work.pop()
        for p in preds[b]:
            if p not in seen and not body.blocks[p]['cleanup']:
                seen.add(p)
                work.append(p)
    return seen


def dominators(body, entry=0):
    """iterative dominator sets over non-cleanup blocks reachable from entry"""
    nodes = sorted(reachable_from(body, entry))
    preds = body.preds()
    dom = {n: set(nodes) for n in nodes}
    dom[entry] = {entry}
    changed = True
    while changed:
        changed = False
        for n in nodes:
            if n == entry:
                continue
            ps = [p for p in preds[n] if p in dom]
            new = set(nodes)
            for p in ps:
                new &= dom[p]
            new = new | {n}
            if new != dom[n]:
                dom[n] = new
                changed = True
    return dom


def return_blocks(body):
    return [i for i in normal_blocks(body) if body.blocks[i]['term']['t'] == 'return']


def exit_blocks(body):
    """normal exits: return, plus diverging calls/unreachable are *not* exits"""
    return return_blocks(body)


def post_dominators(body):
    """post-dominator sets w.r.t. a virtual exit joined from every return block.
    Blocks that cannot reach a return (diverging) get the empty-ish set {self}."""
    nodes = sorted(reachable_from(body, 0))
    rets = [r for r in return_blocks(body) if r in nodes]
    can_exit = reaches(body, set(rets))
    nodes = [n for n in nodes if n in can_exit]
    pdom = {n: set(nodes) for n in nodes}
    for r in rets:
        pdom[r] = {r}
    changed = True
    while changed:
        changed = False
        for n in nodes:
            if n in rets:
                continue
            ss = [s for s in body.succs(n) if s in pdom]
            new = set(nodes)
            for s in ss:
                new &= pdom[s]
            new = new | {n}
            if new != pdom[n]:
                pdom[n] = new
                changed = True
    return pdom


def back_edges(body):
    dom = dominators(body)
    out = []
    for n in dom:
        for s in body.succs(n):
            if s in dom[n]:
                out.append((n, s))
    return out


def natural_loops(body):
    """returns {header: set(blocks)}"""
    preds = body.preds()
    loops = {}
    for (n, h) in back_edges(body):
        blk = {h, n}
        work = [n]
        while work:
            x = work.pop()
            if x == h:
                continue
            for p in preds[x]:
                if p not in blk and not body.blocks[p]['cleanup']:
                    blk.add(p)
                    work.append(p)
        loops.setdefault(h, set()).update(blk)
    return loops


def edge_dominates(body, src, dst, block, dom=None):
    """does the CFG edge src->dst dominate `block`?  (every path entry ->* block uses the edge)
    Implemented by deleting the edge and testing reachability."""
    seen = set()
    work = [0]
    while work:
        b = work.pop()
        if b in seen:
            continue
        seen.add(b)
        if b == block:
            return False
        for s in body.succs(b):
            if body.blocks[s]['cleanup']:
                continue
            if b == src and s == dst:
                continue
            work.append(s)
    return True


def paths_avoiding(body, start, targets, avoid):
    """is some block in `targets` reachable from `start` without entering any block in `avoid`?"""
    seen = set()
    work = [start]
    while work:
        b = work.pop()
        if b in seen or b in avoid:
            continue
        seen.add(b)
        if b in targets:
            return True
        for s in body.succs(b):
            if not body.blocks[s]['cleanup']:
                work.append(s)
    return False
