"""CFG utilities over a mirfacts.Body: dominators, post-dominators, reachability, natural loops.

Cleanup (unwind) blocks and unwind edges are excluded throughout: the properties talk about
normal returns; a panic is a violation of C05 by itself and is handled by the partial-operation
inventory.
"""


def normal_blocks(body):
    return [i for i, b in enumerate(body.blocks) if not b['cleanup']]


def reachable_from(body, start, stop=()):
    """blocks reachable from `start` (inclusive) without passing *through* a block in `stop`
    (stop blocks themselves are included when reached)."""
    seen = set()
    work = [start]
    while work:
        b = work.pop()
        if b in seen:
            continue
        seen.add(b)
        if b in stop and b != start:
            continue
        for s in body.succs(b):
            if not body.blocks[s]['cleanup']:
                work.append(s)
    return seen


def reaches(body, target_set):
    """blocks from which some block in target_set is reachable (inclusive)"""
    preds = body.preds()
    seen = set(target_set)
    work = list(target_set)
    while work:
        b = work.pop()
        for p in preds[b]:
            if p not in seen and not body.blocks[p]['cleanup']:
                seen.add(p)
                work.append(p)
    return seen


def dominators(body, entry=0):
    """iterative dominator sets over non-cleanup blocks reachable from entry"""
    nodes = sorted(reachable_from(body, entry))
    preds = body.preds()
    dom = {n: set(nodes) for n in nodes}
    dom[entry] = {entry}
    changed = True
    while changed:
        changed = False
        for n in nodes:
            if n == entry:
                continue
            ps = [p for p in preds[n] if p in dom]
            new = set(nodes)
            for p in ps:
                new &= dom[p]
            new = new | {n}
            if new != dom[n]:
                dom[n] = new
                changed = True
    return dom


def return_blocks(body):
    return [i for i in normal_blocks(body) if body.blocks[i]['term']['t'] == 'return']


def exit_blocks(body):
    """normal exits: return, plus diverging calls/unreachable are *not* exits"""
    return return_blocks(body)


def post_dominators(body):
    """post-dominator sets w.r.t. a virtual exit joined from every return block.
    Blocks that cannot reach a return (diverging) get the empty-ish set {self}."""
    nodes = sorted(reachable_from(body, 0))
    rets = [r for r in return_blocks(body) if r in nodes]
    can_exit = reaches(body, set(rets))
    nodes = [n for n in nodes if n in can_exit]
    pdom = {n: set(nodes) for n in nodes}
    for r in rets:
        pdom[r] = {r}
    changed = True
    while changed:
        changed = False
        for n in nodes:
            if n in rets:
                continue
            ss = [s for s in body.succs(n) if s in pdom]
            new = set(nodes)
            for s in ss:
                new &= pdom[s]
            new = new | {n}
            if new != pdom[n]:
                pdom[n] = new
                changed = True
    return pdom


def back_edges(body):
    dom = dominators(body)
    out = []
    for n in dom:
        for s in body.succs(n):
            if s in dom[n]:
                out.append((n, s))
    return out


def natural_loops(body):
    """returns {header: set(blocks)}"""
    preds = body.preds()
    loops = {}
    for (n, h) in back_edges(body):
        blk = {h, n}
        work = [n]
        while work:
            x = work.pop()
            if x == h:
                continue
            for p in preds[x]:
                if p not in blk and not body.blocks[p]['cleanup']:
                    blk.add(p)
                    work.append(p)
        loops.setdefault(h, set()).update(blk)
    return loops


def edge_dominates(body, src, dst, block, dom=None):
    """does the CFG edge src->dst dominate `block`?  (every path entry ->* block uses the edge)
    Implemented by deleting the edge and testing reachability."""
    seen = set()
    work = [0]
    while work:
        b = work.pop()
        if b in seen:
            continue
        seen.add(b)
        if b == block:
            return False
        for s in body.succs(b):
            if body.blocks[s]['cleanup']:
                continue
            if b == src and s == dst:
                continue
            work.append(s)
    return True


def paths_avoiding(body, start, targets, avoid):
    """is some block in `targets` reachable from `start` without entering any block in `avoid`?"""
    seen = set()
    work = [start]
    while work:
        b = work.pop()
        if b in seen or b in avoid:
            continue
        seen.add(b)
        if b in targets:
            return True
        for s in body.succs(b):
            if not body.blocks[s]['cleanup']:
                work.append(s)
    return False


def walk_known(body, starts, stop=None, cut_edges=(), skip_blocks=()):
    """Forward walk that remembers, per path, which variant an enum-typed local was last *built as* (an aggregate with a variant, handed on by moves,
    its discriminant read, `?` applied) and follows only the matching edge of a switch on such a discriminant.  A failure re-encoded as an enum
    variant (`return Outcome::ReadFailed` in an expanded helper, matched on by the caller) is thus followed along its own arm only.
    stop(bb) -> True ends the path at bb (bb is still reported); cut_edges: (from, to) pairs not followed; skip_blocks: blocks not entered.
    Returns the set of blocks visited."""
    import re
    from mirfacts import callee_path
    seen, visited = set(), set()
    work = [(s_, ()) for s_ in starts]
    while work:
        x, st8 = work.pop()
        if (x, st8) in visited or x in skip_blocks:
            continue
        visited.add((x, st8))
        seen.add(x)
        if stop is not None and stop(x):
            continue
        known = dict(st8)
        for stm in body.blocks[x]['stmts']:
            if stm['s'] != 'assign' or stm['p']['proj']:
                continue
            rv, dl = stm['rv'], stm['p']['l']
            if rv['r'] == 'agg' and rv.get('ak') == 'adt' and rv.get('variant') is not None:
                known[dl] = ('v', rv['variant'], rv.get('path', ''))
            elif rv['r'] == 'use' and rv['op'].get('o') in ('move', 'copy') and not rv['op']['p']['proj'] and rv['op']['p']['l'] in known:
                known[dl] = known[rv['op']['p']['l']]
            elif rv['r'] == 'discr' and not rv['p']['proj'] and rv['p']['l'] in known and known[rv['p']['l']][0] == 'v':
                known[dl] = ('d', known[rv['p']['l']][1])
            else:
                known.pop(dl, None)
        tt = body.blocks[x]['term']
        if tt['t'] == 'call' and not tt['dest']['proj']:
            a0 = tt['args'][0] if tt['args'] else None
            kv = known.get(a0['p']['l']) if a0 and a0.get('o') in ('move', 'copy') and not a0['p']['proj'] else None
            if kv and kv[0] == 'v' and re.search(r'Try>?::branch$', callee_path(tt) or ''):
                # Result: Ok(0) -> Continue(0), Err(1) -> Break(1); Option: Some(1) -> Continue(0), None(0) -> Break(1)
                idx = kv[1] if 'Result' in kv[2] else (0 if kv[1] == 1 else 1)
                known[tt['dest']['l']] = ('v', idx, 'ControlFlow')
            else:
                known.pop(tt['dest']['l'], None)
        succs = [s_ for s_ in body.succs(x)]
        if tt['t'] == 'switch' and tt['discr'].get('o') in ('move', 'copy') and not tt['discr']['p']['proj']:
            kv = known.get(tt['discr']['p']['l'])
            if kv and kv[0] == 'd':
                hit = [tg for val, tg in tt['targets'] if val == kv[1]]
                succs = hit if hit else [tt['otherwise']]
        nst = tuple(sorted(known.items()))
        for s_ in succs:
            if body.blocks[s_]['cleanup'] or (x, s_) in cut_edges:
                continue
            work.append((s_, nst))
    return seen
