"""fork-based parallel map that cannot hang: a worker that dies (OOM killer) breaks the pool, and the tasks without a result are then
evaluated in this process.  Functions and task data are inherited through fork (module globals), only task descriptors and results are pickled."""
import os
from concurrent.futures import ProcessPoolExecutor
from concurrent.futures.process import BrokenProcessPool
import multiprocessing as mp


def parmap(fn, tasks, workers=None):
    tasks = list(tasks)
    if not tasks:
        return []
    workers = min(workers or 14, os.cpu_count() or 4, len(tasks))
    results = [None] * len(tasks)
    done = [False] * len(tasks)
    if workers > 1 and os.environ.get('TYLINT_SERIAL') != '1':
        try:
            with ProcessPoolExecutor(max_workers=workers, mp_context=mp.get_context('fork')) as ex:
                futs = {ex.submit(fn, t): i for i, t in enumerate(tasks)}
                for f, i in futs.items():
                    try:
                        results[i] = f.result()
                        done[i] = True
                    except BrokenProcessPool:
                        break
        except BrokenProcessPool:
            pass
        except OSError:
            pass
    for i, t in enumerate(tasks):
        if not done[i]:
            results[i] = fn(t)
    return results
