"""Use-site enumeration and forward taint inside MIR bodies."""
from prov import place_key


def _operand_locals(op):
    if op['o'] in ('copy', 'move'):
        return [(op['p']['l'], place_key(op['p'])[1], op['o'])]
    return []


def iter_uses(body):
    """yields dicts: local, proj, how, bb, si (None for terminators), plus context keys"""
    for bi, blk in enumerate(body.blocks):
        if blk['cleanup']:
            continue
        for si, s in enumerate(blk['stmts']):
            if s['s'] != 'assign':
                continue
            rv = s['rv']
            r = rv['r']
            dest = place_key(s['p'])
            # index locals in dest projections are reads too
            for e in dest[1]:
                if e[0] == 'idx':
                    yield dict(local=e[1], proj=(), how='index', bb=bi, si=si, dest=dest, rv=rv)
            if r in ('use', 'cast', 'repeat', 'wrapbinder'):
                for (l, pr, mode) in _operand_locals(rv['op']):
                    yield dict(local=l, proj=pr, how=r, bb=bi, si=si, dest=dest, rv=rv, mode=mode)
            elif r in ('ref', 'rawptr'):
                l, pr = place_key(rv['p'])
                yield dict(local=l, proj=pr, how='ref', bb=bi, si=si, dest=dest, rv=rv, mut=rv.get('mut', False))
            elif r == 'binop':
                for side in ('a', 'b'):
                    for (l, pr, mode) in _operand_locals(rv[side]):
                        yield dict(local=l, proj=pr, how='binop', bb=bi, si=si, dest=dest, rv=rv, op=rv['op'])
            elif r == 'unop':
                for (l, pr, mode) in _operand_locals(rv['a']):
                    yield dict(local=l, proj=pr, how='unop', bb=bi, si=si, dest=dest, rv=rv, op=rv['op'])
            elif r == 'discr':
                l, pr = place_key(rv['p'])
                yield dict(local=l, proj=pr, how='discr', bb=bi, si=si, dest=dest, rv=rv)
            elif r == 'agg':
                for idx, o in enumerate(rv['ops']):
                    for (l, pr, mode) in _operand_locals(o):
                        yield dict(local=l, proj=pr, how='agg', bb=bi, si=si, dest=dest, rv=rv, index=idx)
        t = blk['term']
        k = t['t']
        if k == 'call':
            for idx, a in enumerate(t['args']):
                for (l, pr, mode) in _operand_locals(a):
                    yield dict(local=l, proj=pr, how='call-arg', bb=bi, si=None, term=t, index=idx, mode=mode)
            if 'func' in t:
                for (l, pr, mode) in _operand_locals(t['func']):
                    yield dict(local=l, proj=pr, how='call-func', bb=bi, si=None, term=t)
        elif k == 'switch':
            for (l, pr, mode) in _operand_locals(t['discr']):
                yield dict(local=l, proj=pr, how='switch', bb=bi, si=None, term=t)
        elif k == 'assert':
            for (l, pr, mode) in _operand_locals(t['cond']):
                yield dict(local=l, proj=pr, how='assert', bb=bi, si=None, term=t)
        elif k == 'drop':
            pass


def uses_by_local(body):
    out = {}
    for u in iter_uses(body):
        out.setdefault(u['local'], []).append(u)
    return out
