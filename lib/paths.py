"""E3 - path rules: condition atoms, guarded-by, path enumeration with recorded branch choices."""
import cfg
from prov import Prov, strip_casts, place_key
from mirfacts import callee_path, resolved_id
from tyutil import name_projection, adt_lookup


def _freeze_op(op):
    import json
    return json.dumps(op, sort_keys=True)


def _thaw_op(s):
    import json
    return json.loads(s)


class BodyView:
    """a body + lazily computed provenance / dominators, with naming helpers"""

    def __init__(self, w, body):
        self.w = w
        self.b = body
        self.pv = Prov(body)
        self._dom = None

    # ---------------------------------------------------------------- naming
    def base_type(self, o):
        """type (json) of the value an origin denotes before its unresolved projections"""
        kind, data, proj = o
        b = self.b
        if kind == 'param':
            return b.locals[data]['ty']
        if kind == 'call':
            t = b.blocks[data[0]]['term']
            if not t['dest']['proj']:
                return b.locals[t['dest']['l']]['ty']
        return None

    def describe(self, o, depth=0):
        o = strip_casts(o)
        kind, data, proj = o
        b = self.b
        names = []
        bt = self.base_type(o)
        if bt is not None and proj:
            names, _ = name_projection(self.w, bt, proj)
        if names and '.' in names[-1] and not names[-1].startswith(('tuple.', 'upvar.')) and '#' not in names[-1] \
                and not names[-1].startswith(('std::', 'core::', 'alloc::')):
            return 'field:' + names[-1]
        suffix = ''.join('.' + '/'.join(str(x) for x in e) for e in proj)
        if kind == 'param':
            return 'param%d%s' % (data, suffix)
        if kind == 'call':
            t = b.blocks[data[0]]['term']
            rid = resolved_id(t) or data[1]
            args = ''
            if depth < 2:
                args = '(' + ','.join(self.describe_operand(a, depth + 1) for a in t['args']) + ')'
            return 'call:%s%s%s' % (rid, args, suffix)
        if kind == 'const':
            return 'const:%r' % (data[1],)
        if kind == 'binop':
            rv = b.blocks[data[0]]['stmts'][data[1]]['rv']
            return 'binop:%s(%s,%s)%s' % (data[2], self.describe_operand(rv['a'], depth + 1), self.describe_operand(rv['b'], depth + 1), suffix)
        if kind == 'unop':
            rv = b.blocks[data[0]]['stmts'][data[1]]['rv']
            return 'unop:%s(%s)' % (data[2], self.describe_operand(rv['a'], depth + 1))
        if kind == 'discr':
            l, pr = data
            return 'discr(%s)' % self.describe_place(l, pr, depth + 1)
        if kind == 'ref':
            l, pr = data
            return '&' + self.describe_place(l, pr, depth + 1)
        if kind == 'agg':
            rv = b.blocks[data[0]]['stmts'][data[1]]['rv']
            if rv['ak'] == 'adt':
                return 'agg:%s::%s%s' % (rv['adt'], rv['vname'], suffix)
            return 'agg:%s%s' % (rv['ak'], suffix)
        return '%s%s' % (kind, suffix)

    def describe_place(self, l, pr, depth=0):
        if depth > 4:
            return '_'
        ors = self.pv.peel(self.pv._origins(l, pr, frozenset()))
        ds = sorted({self.describe(o, depth) for o in ors})
        return '|'.join(ds)

    def describe_operand(self, op, depth=0):
        if depth > 4:
            return '_'
        ors = self.pv.peel(self.pv.origins_operand(op))
        return '|'.join(sorted({self.describe(o, depth) for o in ors}))

    # ---------------------------------------------------------------- switches
    def switch_atom(self, bb):
        t = self.b.blocks[bb]['term']
        assert t['t'] == 'switch'
        return self.describe_operand(t['discr'])

    def switch_edges(self, bb):
        """[(target, label)] label = frozenset of int values or ('not', frozenset)"""
        t = self.b.blocks[bb]['term']
        by_target = {}
        vals = []
        for v, tgt in t['targets']:
            by_target.setdefault(tgt, set()).add(v)
            vals.append(v)
        out = [(tgt, ('in', frozenset(vs))) for tgt, vs in by_target.items()]
        ow = t['otherwise']
        if not self._is_unreachable(ow):
            out.append((ow, ('not', frozenset(vals))))
        return out

    def _is_unreachable(self, bb):
        return self.b.blocks[bb]['term']['t'] == 'unreachable' and not self.b.blocks[bb]['stmts']

    def variant_names(self, bb):
        """for a switch on a discriminant: {value: variant name} from the enum table, else None"""
        t = self.b.blocks[bb]['term']
        d = t['discr']
        if d['o'] not in ('copy', 'move'):
            return None
        ors = self.pv.origins_operand(d)
        for o in ors:
            o = strip_casts(o)
            if o[0] == 'discr':
                l, pr = o[1]
                _, ty = name_projection(self.w, self.b.locals[l]['ty'], pr)
                while ty is not None and ty['k'] == 'ref':
                    ty = ty['t']
                if ty is not None and ty['k'] == 'adt':
                    a = adt_lookup(self.w, ty['id'])
                    if a and a['kind'] == 'enum':
                        return {v['discr']: v['name'] for v in a['variants']}
        return None

    def label_holds(self, bb, label, name_or_value):
        """does the edge label admit the given variant name / value?"""
        kind, vals = label
        names = self.variant_names(bb)
        if isinstance(name_or_value, str) and names:
            inv = {n: v for v, n in names.items()}
            if name_or_value not in inv:
                return False
            val = inv[name_or_value]
        else:
            val = name_or_value
        return (val in vals) if kind == 'in' else (val not in vals)

    def label_values(self, bb, label):
        """set of variant names (or ints / bools) the edge admits"""
        kind, vals = label
        t = self.b.blocks[bb]['term']
        names = self.variant_names(bb)
        if names:
            allv = set(names)
            sel = (allv & vals) if kind == 'in' else (allv - vals)
            return {names[v] for v in sel}
        if t['discr_ty'] == 'bool':
            allv = {0, 1}
            sel = (allv & vals) if kind == 'in' else (allv - vals)
            return {bool(v) for v in sel}
        return {('in' if kind == 'in' else 'not') + ':' + ','.join(str(v) for v in sorted(vals))}

    # ---------------------------------------------------------------- guarded-by
    def dom(self):
        if self._dom is None:
            self._dom = cfg.dominators(self.b)
        return self._dom

    def guards(self, block):
        """[(atom, admitted value set, switch_bb)] for every switch edge that dominates `block`"""
        out = []
        doms = self.dom().get(block, set())
        for s in sorted(doms):
            t = self.b.blocks[s]['term']
            if t['t'] != 'switch' or s == block:
                continue
            for tgt, label in self.switch_edges(s):
                if tgt == s:
                    continue
                # edge must dominate: every path to block goes through s->tgt
                if cfg.edge_dominates(self.b, s, tgt, block):
                    out.append((self.switch_atom(s), self.label_values(s, label), s))
        return out

    def guards_ext(self, block, depth=0):
        """guards(block) plus the guards carried by the *construction* of a tested value: when a dominating switch admits only variants S of a
        value whose every origin is an aggregate `V(..)` built in this body (seen through `?` / Try::branch), the path came through one of the
        sites that build a variant in S, so whatever dominates all of those sites holds as well.
        (`let Some(x) = helper() else ..` / `helper()?` where the inlined helper builds Some/Ok only after its own test.)"""
        import re
        base = self.guards(block)
        out = list(base)
        if depth > 3:
            return out
        RENAME = {'Continue': ('Ok', 'Some'), 'Break': ('Err', 'None')}
        for atom, vals, s in base:
            t = self.b.blocks[s]['term']
            # (1) a bool local tested as a value (`let both = !a && !b; if both {..}`, `matches!(..)`, an expanded predicate closure): the edge fixes its
            #     truth value, so the definition that ran is one that can produce that value; what holds at all of those definitions holds here, and a
            #     single remaining definition `x` / `!x` fixes x as well
            d = t['discr']
            if t.get('discr_ty') == 'bool' and d.get('o') in ('copy', 'move') and not d['p']['proj'] and vals in ({True}, {False}):
                for g in self._bool_local_facts(d['p']['l'], next(iter(vals)), depth):
                    if g not in out:
                        out.append(g)
            # (2) `x == Enum::V` through a derived PartialEq (a comparison of discriminants) on a value all of whose origins are unit variants built in this
            #     body (`let order = if c { Sorted } else { Source }; .. if order == Sorted`): the edge says which construction site the path came through
            if vals in ({True}, {False}):
                for o in self.pv.origins_operand(t['discr']):
                    o = strip_casts(o)
                    if o[0] != 'call' or o[2]:
                        continue
                    ct = self.pv.call_term(o)
                    cp = callee_path(ct) or ''
                    m_ = re.search(r'::(eq|ne)$', cp)
                    fb = self.w.bodies.get(resolved_id(ct))
                    if not m_ or fb is None or len(ct['args']) != 2 or any(True for _ in fb.calls() if not re.search(r'discriminant_value$', callee_path(_[1]) or '')):
                        continue
                    sides = [[strip_casts(x) for x in self.pv.peel(self.pv.origins_operand(a))] for a in ct['args']]

                    def vnames(side):
                        out_ = []
                        for x in side:
                            if x[0] == 'agg' and not x[2] and self.pv.agg_rvalue(x).get('vname') and not self.pv.agg_rvalue(x).get('ops'):
                                out_.append((self.pv.agg_rvalue(x)['vname'], x))
                            elif x[0] == 'promoted':
                                # `&Enum::V` as a promoted constant: read the variant from the promoted body
                                owner, idx = (x[1] if isinstance(x[1], tuple) else (self.b.id, x[1]))
                                pb = self.w.bodies.get('%s::promoted[%d]' % (owner, idx))
                                if pb is None and getattr(self.b, 'original', None) is not None:
                                    pb = self.w.bodies.get('%s::promoted[%d]' % (self.b.original.id, idx))
                                vs_ = [st['rv'].get('vname') for blk in (pb.blocks if pb else []) for st in blk['stmts']
                                       if st['s'] == 'assign' and st['rv'].get('r') == 'agg' and st['rv'].get('vname') and not st['rv'].get('ops')]
                                if len(vs_) != 1:
                                    return None
                                out_.append((vs_[0], x))
                            else:
                                return None
                        return out_
                    va, vb = vnames(sides[0]), vnames(sides[1])
                    if not va or not vb:
                        continue
                    const_side, var_side = (vb, va) if len({n for n, _ in vb}) == 1 and len({n for n, _ in va}) > 1 else ((va, vb) if len({n for n, _ in va}) == 1 and len({n for n, _ in vb}) > 1 else (None, None))
                    if const_side is None:
                        continue
                    V = const_side[0][0]
                    is_v = (m_.group(1) == 'eq') == (vals == {True})
                    sel = [x for n, x in var_side if (n == V) == is_v and x[0] == 'agg']
                    if not sel or len(sel) == len(var_side):
                        continue
                    common = None
                    for x in sel:
                        gs = {(a, frozenset(v_), s_) for a, v_, s_ in self.guards_ext(x[1][0], depth + 1)}
                        common = gs if common is None else (common & gs)
                    for a, v_, s_ in sorted(common or (), key=str):
                        if (a, set(v_), s_) not in out:
                            out.append((a, set(v_), s_))
            for o in self.pv.origins_operand(t['discr']):
                o = strip_casts(o)
                if o[0] != 'discr':
                    continue
                l, pr = o[1]
                want = {x for x in vals if isinstance(x, str)}
                srcs = self.pv.peel(self.pv._origins(l, pr, frozenset()))
                for _ in range(3):
                    nxt, changed = set(), False
                    for x in srcs:
                        x = strip_casts(x)
                        if x[0] == 'call' and not x[2] and re.search(r'Try>?::branch$', callee_path(self.pv.call_term(x)) or ''):
                            nxt |= self.pv.peel(self.pv.origins_operand(self.pv.call_term(x)['args'][0]))
                            want = {y for v_ in want for y in RENAME.get(v_, (v_,))}
                            changed = True
                        else:
                            nxt.add(x)
                    srcs = nxt
                    if not changed:
                        break
                def variants_of(x):
                    if x[0] == 'agg' and not x[2] and self.pv.agg_rvalue(x).get('vname'):
                        return {self.pv.agg_rvalue(x)['vname']}
                    if x[0] == 'call' and not x[2] and re.search(r'FromResidual.*::from_residual$', callee_path(self.pv.call_term(x)) or ''):
                        return {'Err', 'None', 'Break'}          # `?` in the producer: a residual is never the positive variant
                    return None
                if not srcs or not all(variants_of(x) for x in srcs):
                    continue
                sel = [x for x in srcs if variants_of(x) & want]
                if not sel or len(sel) == len(srcs):
                    continue
                common = None
                for x in sel:
                    gs = {(a, frozenset(v_), s_) for a, v_, s_ in self.guards_ext(x[1][0], depth + 1)}
                    common = gs if common is None else (common & gs)
                for a, v_, s_ in sorted(common or (), key=str):
                    if (a, set(v_), s_) not in out:
                        out.append((a, set(v_), s_))
        return out

    def _bool_local_facts(self, l, value, depth, hops=0):
        """guards implied by `local l == value` (see guards_ext)"""
        if l <= self.b.arg_count or hops > 4:
            return []
        # never borrowed / partially written
        for blk in self.b.blocks:
            for st in blk['stmts']:
                if st['s'] == 'assign' and st['rv']['r'] in ('ref', 'rawptr') and st['rv'].get('p', {}).get('l') == l:
                    return []
        defs = []
        for (proj, kind, bi, si, payload) in self.pv.defs.get(l, []):
            if proj != ():
                return []
            defs.append((kind, bi, si, payload))
        cands = []
        for (kind, bi, si, payload) in defs:
            if kind == 'rv' and payload['r'] == 'use' and payload['op']['o'] == 'const' and isinstance(payload['op'].get('int'), int):
                if bool(payload['op']['int']) != value:
                    continue          # this definition cannot produce the tested value
            cands.append((kind, bi, si, payload))
        if not cands or len(cands) == len(defs) and len(defs) > 1 and all(k == 'rv' and p_['r'] == 'use' and p_['op']['o'] == 'const' for k, _b, _s, p_ in cands):
            pass
        out = []
        common = None
        for (kind, bi, si, payload) in cands:
            gs = {(a, frozenset(v_), s_) for a, v_, s_ in self.guards_ext(bi, depth + 1)}
            common = gs if common is None else (common & gs)
        for a, v_, s_ in sorted(common or (), key=str):
            out.append((a, set(v_), s_))
        if len(cands) == 1 and cands[0][0] == 'rv':
            kind, bi, si, rv = cands[0]
            if rv['r'] == 'use' and rv['op']['o'] in ('copy', 'move'):
                op = rv['op']
                out.append((self.describe_operand(op), {value}, ('def', bi, si, _freeze_op(op))))
                if not op['p']['proj']:
                    out += self._bool_local_facts(op['p']['l'], value, depth, hops + 1)
            elif rv['r'] == 'unop' and rv['op'] == 'Not' and rv['a']['o'] in ('copy', 'move'):
                op = rv['a']
                out.append((self.describe_operand(op), {not value}, ('def', bi, si, _freeze_op(op))))
                if not op['p']['proj']:
                    out += self._bool_local_facts(op['p']['l'], not value, depth, hops + 1)
        return out

    def guard_operand(self, g):
        """the operand whose value a guard (from guards / guards_ext) fixes"""
        sw = g[2]
        if isinstance(sw, int):
            return self.b.blocks[sw]['term']['discr']
        return _thaw_op(sw[3])

    def guarded_by(self, block, atom_pred, value):
        for atom, vals, s in self.guards(block):
            if atom_pred(atom) and vals == {value}:
                return True
        return False

    # ---------------------------------------------------------------- path enumeration
    def enumerate_paths(self, start, is_end, relevant=None, max_paths=5000, avoid=(), mark=None):
        """DFS over the CFG from `start`; a path ends at a block for which is_end(bb) holds or at a
        return.  Each block is visited at most once per path (loops are cut at the back edge and
        reported with end='loop').  relevant(atom) selects the switches whose choice is recorded;
        other switches are still followed on all edges but identical (choices, end) paths are merged.
        mark(bb) -> hashable|None distinguishes paths that pass through marked blocks (so that merging
        never hides a path with a different effect).
        yields (choices tuple[(atom, frozenset(values), bb)], blocks tuple, end_bb, end_kind)"""
        b = self.b
        results = {}
        mark = mark or (lambda bb: None)
        def msig(blocks):
            return tuple(m for m in (mark(x) for x in blocks) if m is not None)
        stack = [(start, (), (start,))]
        count = 0
        while stack:
            bb, choices, blocks = stack.pop()
            count += 1
            if count > 200000:
                raise RuntimeError('path explosion in %s' % b.short)
            t = b.blocks[bb]['term']
            if is_end(bb) and bb != start:
                results.setdefault((choices, bb, 'end', msig(blocks)), blocks)
                continue
            if t['t'] == 'return':
                results.setdefault((choices, bb, 'return', msig(blocks)), blocks)
                continue
            if t['t'] == 'switch':
                atom = self.switch_atom(bb)
                rec = relevant is None or relevant(atom)
                known = self._const_on_path(blocks, t['discr'])
                for tgt, label in self.switch_edges(bb):
                    if known is not None and not self._edge_takes(label, known):
                        continue          # `_3 = const ..; goto; switchInt(_3)` (matches!, &&, ||): only one edge is feasible on this path
                    ch = choices + ((atom, frozenset(self.label_values(bb, label)), bb),) if rec else choices
                    if tgt in blocks:
                        results.setdefault((ch, tgt, 'loop', msig(blocks)), blocks)
                        continue
                    if tgt in avoid:
                        continue
                    stack.append((tgt, ch, blocks + (tgt,)))
                continue
            succ = [s for s in b.succs(bb) if not b.blocks[s]['cleanup']]
            if not succ:
                results.setdefault((choices, bb, 'diverge', msig(blocks)), blocks)
                continue
            for s in succ:
                if s in blocks:
                    results.setdefault((choices, s, 'loop', msig(blocks)), blocks)
                    continue
                if s in avoid:
                    continue
                stack.append((s, choices, blocks + (s,)))
            if len(results) > max_paths:
                raise RuntimeError('too many distinct paths in %s' % b.short)
        for (choices, end, kind, _m), blocks in results.items():
            yield choices, blocks, end, kind

    def _const_on_path(self, blocks, discr):
        """integer value of a switch operand whose last whole assignment along this path is a constant (None if unknown)"""
        if discr.get('o') not in ('copy', 'move') or discr['p']['proj']:
            return None
        l = discr['p']['l']
        if l <= self.b.arg_count:
            return None
        la = self.last_assignment(blocks, l)
        if la is None or la[1] is None:
            return None
        rv = la[2]
        if rv['r'] == 'use' and rv['op']['o'] == 'const' and isinstance(rv['op'].get('int'), int):
            # no partial write (projection / borrow) may intervene: only trust compiler temporaries that are never borrowed
            for blk in self.b.blocks:
                for st in blk['stmts']:
                    if st['s'] == 'assign' and st['rv']['r'] in ('ref', 'rawptr') and st['rv'].get('p', {}).get('l') == l:
                        return None
            return rv['op']['int']
        return None

    @staticmethod
    def _edge_takes(label, value):
        kind, vals = label
        return (value in vals) if kind == 'in' else (value not in vals)

    def last_assignment(self, blocks, local):
        """the last whole assignment to `local` along the block sequence: (bb, si|None, rvalue|term)"""
        last = None
        for bb in blocks:
            blk = self.b.blocks[bb]
            for si, s in enumerate(blk['stmts']):
                if s['s'] == 'assign' and s['p']['l'] == local and not s['p']['proj']:
                    last = (bb, si, s['rv'])
            t = blk['term']
            if t['t'] == 'call' and t['dest']['l'] == local and not t['dest']['proj']:
                last = (bb, None, t)
        return last
