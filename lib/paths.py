"""E3 - path rules: condition atoms, guarded-by, path enumeration with recorded branch choices."""
import cfg
from prov import Prov, strip_casts, place_key
from mirfacts import callee_path, resolved_id
from tyutil import name_projection, adt_lookup


class BodyView:
    """a body + lazily computed provenance / dominators, with naming helpers"""

    def __init__(self, w, body):
        self.w = w
        self.b = body
        self.pv = Prov(body)
        self._dom = None

    # ---------------------------------------------------------------- naming
    def base_type(self, o):
        """type (json) of the value an origin denotes before its unresolved projections"""
        kind, data, proj = o
        b = self.b
        if kind == 'param':
            return b.locals[data]['ty']
        if kind == 'call':
            t = b.blocks[data[0]]['term']
            if not t['dest']['proj']:
                return b.locals[t['dest']['l']]['ty']
        return None

    def describe(self, o, depth=0):
        o = strip_casts(o)
        kind, data, proj = o
        b = self.b
        names = []
        bt = self.base_type(o)
        if bt is not None and proj:
            names, _ = name_projection(self.w, bt, proj)
        if names and '.' in names[-1] and not names[-1].startswith(('tuple.', 'upvar.')) and '#' not in names[-1] \
                and not names[-1].startswith(('std::', 'core::', 'alloc::')):
            return 'field:' + names[-1]
        suffix = ''.join('.' + '/'.join(str(x) for x in e) for e in proj)
        if kind == 'param':
            return 'param%d%s' % (data, suffix)
        if kind == 'call':
            t = b.blocks[data[0]]['term']
            rid = resolved_id(t) or data[1]
            args = ''
            if depth < 2:
                args = '(' + ','.join(self.describe_operand(a, depth + 1) for a in t['args']) + ')'
            return 'call:%s%s%s' % (rid, args, suffix)
        if kind == 'const':
            return 'const:%r' % (data[1],)
        if kind == 'binop':
            rv = b.blocks[data[0]]['stmts'][data[1]]['rv']
            return 'binop:%s(%s,%s)%s' % (data[2], self.describe_operand(rv['a'], depth + 1), self.describe_operand(rv['b'], depth + 1), suffix)
        if kind == 'unop':
            rv = b.blocks[data[0]]['stmts'][data[1]]['rv']
            return 'unop:%s(%s)' % (data[2], self.describe_operand(rv['a'], depth + 1))
        if kind == 'discr':
            l, pr = data
            return 'discr(%s)' % self.describe_place(l, pr, depth + 1)
        if kind == 'ref':
            l, pr = data
            return '&' + self.describe_place(l, pr, depth + 1)
        if kind == 'agg':
            rv = b.blocks[data[0]]['stmts'][data[1]]['rv']
            if rv['ak'] == 'adt':
                return 'agg:%s::%s%s' % (rv['adt'], rv['vname'], suffix)
            return 'agg:%s%s' % (rv['ak'], suffix)
        return '%s%s' % (kind, suffix)

    def describe_place(self, l, pr, depth=0):
        if depth > 4:
            return '_'
        ors = self.pv.peel(self.pv._origins(l, pr, frozenset()))
        ds = sorted({self.describe(o, depth) for o in ors})
        return '|'.join(ds)

    def describe_operand(self, op, depth=0):
        if depth > 4:
            return '_'
        ors = self.pv.peel(self.pv.origins_operand(op))
        return '|'.join(sorted({self.describe(o, depth) for o in ors}))

    # ---------------------------------------------------------------- switches
    def switch_atom(self, bb):
        t = self.b.blocks[bb]['term']
        assert t['t'] == 'switch'
        return self.describe_operand(t['discr'])

    def switch_edges(self, bb):
        """[(target, label)] label = frozenset of int values or ('not', frozenset)"""
        t = self.b.blocks[bb]['term']
        by_target = {}
        vals = []
        for v, tgt in t['targets']:
            by_target.setdefault(tgt, set()).add(v)
            vals.append(v)
        out = [(tgt, ('in', frozenset(vs))) for tgt, vs in by_target.items()]
        ow = t['otherwise']
        if not self._is_unreachable(ow):
            out.append((ow, ('not', frozenset(vals))))
        return out

    def _is_unreachable(self, bb):
        return self.b.blocks[bb]['term']['t'] == 'unreachable' and not self.b.blocks[bb]['stmts']

    def variant_names(self, bb):
        """for a switch on a discriminant: {value: variant name} from the enum table, else None"""
        t = self.b.blocks[bb]['term']
        d = t['discr']
        if d['o'] not in ('copy', 'move'):
            return None
        ors = self.pv.origins_operand(d)
        for o in ors:
            o = strip_casts(o)
            if o[0] == 'discr':
                l, pr = o[1]
                _, ty = name_projection(self.w, self.b.locals[l]['ty'], pr)
                while ty is not None and ty['k'] == 'ref':
                    ty = ty['t']
                if ty is not None and ty['k'] == 'adt':
                    a = adt_lookup(self.w, ty['id'])
                    if a and a['kind'] == 'enum':
                        return {v['discr']: v['name'] for v in a['variants']}
        return None

    def label_holds(self, bb, label, name_or_value):
        """does the edge label admit the given variant name / value?"""
        kind, vals = label
        names = self.variant_names(bb)
        if isinstance(name_or_value, str) and names:
            inv = {n: v for v, n in names.items()}
            if name_or_value not in inv:
                return False
            val = inv[name_or_value]
        else:
            val = name_or_value
        return (val in vals) if kind == 'in' else (val not in vals)

    def label_values(self, bb, label):
        """set of variant names (or ints / bools) the edge admits"""
        kind, vals = label
        t = self.b.blocks[bb]['term']
        names = self.variant_names(bb)
        if names:
            allv = set(names)
            sel = (allv & vals) if kind == 'in' else (allv - vals)
            return {names[v] for v in sel}
        if t['discr_ty'] == 'bool':
            allv = {0, 1}
            sel = (allv & vals) if kind == 'in' else (allv - vals)
            return {bool(v) for v in sel}
        return {('in' if kind == 'in' else 'not') + ':' + ','.join(str(v) for v in sorted(vals))}

    # ---------------------------------------------------------------- guarded-by
    def dom(self):
        if self._dom is None:
            self._dom = cfg.dominators(self.b)
        return self._dom

    def guards(self, block):
        """[(atom, admitted value set, switch_bb)] for every switch edge that dominates `block`"""
        out = []
        doms = self.dom().get(block, set())
        for s in sorted(doms):
            t = self.b.blocks[s]['term']
            if t['t'] != 'switch' or s == block:
                continue
            for tgt, label in self.switch_edges(s):
                if tgt == s:
                    continue
                # edge must dominate: every path to block goes through s->tgt
                if cfg.edge_dominates(self.b, s, tgt, block):
                    out.append((self.switch_atom(s), self.label_values(s, label), s))
        return out

    def guarded_by(self, block, atom_pred, value):
        for atom, vals, s in self.guards(block):
            if atom_pred(atom) and vals == {value}:
                return True
        return False

    # ---------------------------------------------------------------- path enumeration
    def enumerate_paths(self, start, is_end, relevant=None, max_paths=5000, avoid=(), mark=None):
        """DFS over the CFG from `start`; a path ends at a block for which is_end(bb) holds or at a
        return.  Each block is visited at most once per path (loops are cut at the back edge and
        reported with end='loop').  relevant(atom) selects the switches whose choice is recorded;
        other switches are still followed on all edges but identical (choices, end) paths are merged.
        mark(bb) -> hashable|None distinguishes paths that pass through marked blocks (so that merging
        never hides a path with a different effect).
        yields (choices tuple[(atom, frozenset(values), bb)], blocks tuple, end_bb, end_kind)"""
        b = self.b
        results = {}
        mark = mark or (lambda bb: None)
        def msig(blocks):
            return tuple(m for m in (mark(x) for x in blocks) if m is not None)
        stack = [(start, (), (start,))]
        count = 0
        while stack:
            bb, choices, blocks = stack.pop()
            count += 1
            if count > 200000:
                raise RuntimeError('path explosion in %s' % b.short)
            t = b.blocks[bb]['term']
            if is_end(bb) and bb != start:
                results.setdefault((choices, bb, 'end', msig(blocks)), blocks)
                continue
            if t['t'] == 'return':
                results.setdefault((choices, bb, 'return', msig(blocks)), blocks)
                continue
            if t['t'] == 'switch':
                atom = self.switch_atom(bb)
                rec = relevant is None or relevant(atom)
                known = self._const_on_path(blocks, t['discr'])
                for tgt, label in self.switch_edges(bb):
                    if known is not None and not self._edge_takes(label, known):
                        continue          # `_3 = const ..; goto; switchInt(_3)` (matches!, &&, ||): only one edge is feasible on this path
                    ch = choices + ((atom, frozenset(self.label_values(bb, label)), bb),) if rec else choices
                    if tgt in blocks:
                        results.setdefault((ch, tgt, 'loop', msig(blocks)), blocks)
                        continue
                    if tgt in avoid:
                        continue
                    stack.append((tgt, ch, blocks + (tgt,)))
                continue
            succ = [s for s in b.succs(bb) if not b.blocks[s]['cleanup']]
            if not succ:
                results.setdefault((choices, bb, 'diverge', msig(blocks)), blocks)
                continue
            for s in succ:
                if s in blocks:
                    results.setdefault((choices, s, 'loop', msig(blocks)), blocks)
                    continue
                if s in avoid:
                    continue
                stack.append((s, choices, blocks + (s,)))
            if len(results) > max_paths:
                raise RuntimeError('too many distinct paths in %s' % b.short)
        for (choices, end, kind, _m), blocks in results.items():
            yield choices, blocks, end, kind

    def _const_on_path(self, blocks, discr):
        """integer value of a switch operand whose last whole assignment along this path is a constant (None if unknown)"""
        if discr.get('o') not in ('copy', 'move') or discr['p']['proj']:
            return None
        l = discr['p']['l']
        if l <= self.b.arg_count:
            return None
        la = self.last_assignment(blocks, l)
        if la is None or la[1] is None:
            return None
        rv = la[2]
        if rv['r'] == 'use' and rv['op']['o'] == 'const' and isinstance(rv['op'].get('int'), int):
            # no partial write (projection / borrow) may intervene: only trust compiler temporaries that are never borrowed
            for blk in self.b.blocks:
                for st in blk['stmts']:
                    if st['s'] == 'assign' and st['rv']['r'] in ('ref', 'rawptr') and st['rv'].get('p', {}).get('l') == l:
                        return None
            return rv['op']['int']
        return None

    @staticmethod
    def _edge_takes(label, value):
        kind, vals = label
        return (value in vals) if kind == 'in' else (value not in vals)

    def last_assignment(self, blocks, local):
        """the last whole assignment to `local` along the block sequence: (bb, si|None, rvalue|term)"""
        last = None
        for bb in blocks:
            blk = self.b.blocks[bb]
            for si, s in enumerate(blk['stmts']):
                if s['s'] == 'assign' and s['p']['l'] == local and not s['p']['proj']:
                    last = (bb, si, s['rv'])
            t = blk['term']
            if t['t'] == 'call' and t['dest']['l'] == local and not t['dest']['proj']:
                last = (bb, None, t)
        return last
