"""Positive examples for rules whose expected instance count on /repo is zero: tiny crates under
/verif/selftest compiled with the same driver on every run."""
import hashlib, json, os, shutil, subprocess
import extract
from world import World


def positive_world(name):
    src = os.path.join(extract.VERIF, 'selftest', name + '.rs')
    with open(src, 'rb') as fh:
        h = hashlib.sha256(fh.read())
    with open(extract.DRIVER, 'rb') as fh:
        h.update(hashlib.sha256(fh.read()).digest())
    key = h.hexdigest()[:16]
    out = os.path.join(extract.WORK, 'selftest', '%s-%s' % (name, key))
    if not os.path.exists(os.path.join(out, 'STAMP')):
        if os.path.exists(out):
            shutil.rmtree(out)
        os.makedirs(out)
        sysroot = extract._sysroot()
        env = dict(os.environ)
        env.update({'LD_LIBRARY_PATH': os.path.join(sysroot, 'lib'), 'TYLINT_OUT': out, 'TYLINT_NONCE': key})
        cmd = [extract.DRIVER, os.path.join(sysroot, 'bin', 'rustc'), '--crate-name', name, '--crate-type', 'lib',
               '--edition', '2021', src, '-Zmir-opt-level=0', '-Awarnings', '--emit=metadata', '--out-dir', out]
        p = subprocess.run(cmd, env=env, stdout=subprocess.PIPE, stderr=subprocess.STDOUT, text=True)
        if p.returncode != 0:
            raise extract.ExtractError('selftest crate %s failed to compile:\n%s' % (name, p.stdout[-2000:]))
        open(os.path.join(out, 'STAMP'), 'w').write(key)
    return World(out, 'selftest:' + name)
