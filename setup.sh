#!/bin/sh
# Build the tylint rustc driver (nightly, rustc_private, zero Cargo dependencies). Offline.
set -e
cd "$(dirname "$0")/tylint"
CARGO_NET_OFFLINE=true cargo +nightly build --offline 2>&1 | tail -3
test -x target/debug/tylint
echo "tylint built"
